(* Proofs about Model/Acl.v: the coded containment test is "top len bits
   equal" in all four family combinations; the coded decision is first-match. *)
From Erbium Require Import Lib.Base Model.Acl.

Lemma Some_inj {A} (a b : A) : Some a = Some b -> a = b.
Proof. intro H; congruence. Qed.

Lemma and_iff_both (A B C D : Prop) : (A <-> C) -> (B <-> D) -> (A /\ B <-> C /\ D).
Proof. tauto. Qed.

(* ---- bits ---------------------------------------------------------------- *)
Lemma testbit_high (y w j : N) : y < 2 ^ w -> w <= j -> N.testbit y j = false.
Proof.
  intros Hy Hj. destruct (N.eq_dec y 0) as [->|Hne]; [apply N.bits_0|].
  apply N.bits_above_log2. apply N.lt_le_trans with w; [|exact Hj].
  apply N.log2_lt_pow2; lia.
Qed.

Lemma ones_bit (w j : N) : N.testbit (N.ones w) j = (j <? w).
Proof.
  destruct (N.ltb_spec j w).
  - apply N.ones_spec_low; lia.
  - apply N.ones_spec_high; lia.
Qed.

Lemma netmask_bit (w len j : N) : len <= w ->
  N.testbit (netmask w len) j = (w - len <=? j) && (j <? w).
Proof.
  intro Hl. unfold netmask. destruct (N.ltb_spec len w).
  - rewrite N.lxor_spec, N.shiftr_spec', !ones_bit.
    destruct (N.ltb_spec j w), (N.ltb_spec (j + len) w), (N.leb_spec (w - len) j); try reflexivity; lia.
  - rewrite ones_bit. replace (w - len) with 0 by lia. destruct j; reflexivity.
Qed.

(* the coded test on one family: masks on both sides, then equality *)
Lemma contains_w_spec (w a len x : N) : len <= w ->
  (contains_w w a len x = true <->
   forall i, i < len -> N.testbit a (w - 1 - i) = N.testbit x (w - 1 - i)).
Proof.
  intro Hl. unfold contains_w. rewrite N.eqb_eq. split.
  - intros H i Hi.
    assert (Hb := f_equal (fun v => N.testbit v (w - 1 - i)) H). cbv beta in Hb.
    rewrite !N.land_spec, netmask_bit in Hb by exact Hl.
    replace ((w - len <=? w - 1 - i) && (w - 1 - i <? w)) with true in Hb.
    + rewrite !andb_true_r in Hb. symmetry. exact Hb.
    + symmetry. apply andb_true_intro. split; [apply N.leb_le|apply N.ltb_lt]; lia.
  - intro H. apply N.bits_inj. intro j. rewrite !N.land_spec, netmask_bit by exact Hl.
    destruct (N.leb_spec (w - len) j); [|rewrite !andb_false_r; reflexivity].
    destruct (N.ltb_spec j w); [|rewrite !andb_false_r; reflexivity].
    cbn [andb]. rewrite !andb_true_r.
    specialize (H (w - 1 - j)). replace (w - 1 - (w - 1 - j)) with j in H by lia.
    symmetry. apply H. lia.
Qed.

(* ::ffff:y as a 128-bit number *)
Lemma mapped_bit (y j : N) : y < 2 ^ 32 ->
  N.testbit (N.lor (N.shiftl 65535 32) y) j = if j <? 32 then N.testbit y j else N.testbit 65535 (j - 32).
Proof.
  intro Hy. rewrite N.lor_spec. destruct (N.ltb_spec j 32).
  - rewrite N.shiftl_spec_low by exact H. reflexivity.
  - rewrite N.shiftl_spec_high' by exact H. rewrite (testbit_high y 32 j Hy H). apply orb_false_r.
Qed.

Lemma bit16_high (j : N) : 16 <= j -> N.testbit 65535 j = false.
Proof. intro. apply (testbit_high 65535 16); [reflexivity|assumption]. Qed.

Lemma from_mapped_some (x y : N) : from_mapped x = Some y <-> N.shiftr x 32 = 65535 /\ y = N.land x (N.ones 32).
Proof.
  unfold from_mapped. destruct (N.eqb_spec (N.shiftr x 32) 65535); split.
  - intro H; inversion H; auto.
  - intros [_ ->]; reflexivity.
  - discriminate.
  - intros [H _]; contradiction.
Qed.

Lemma low32_bit (x j : N) : N.testbit (N.land x (N.ones 32)) j = N.testbit x j && (j <? 32).
Proof. rewrite N.land_spec, ones_bit. reflexivity. Qed.

(* ---- C08_contains_spec ---------------------------------------------------- *)
Lemma contains_spec (p : prefix) (ip : addr) :
  wf_prefix p = true -> wf_addr ip = true -> (contains p ip = true <-> in_prefix p ip).
Proof.
  intros Hp Hi. destruct p as [a l|a l], ip as [x|x|]; cbn [wf_prefix wf_addr] in Hp, Hi;
    try (apply andb_prop in Hp; destruct Hp as [Ha Hl]; apply N.ltb_lt in Ha; apply N.leb_le in Hl);
    try apply N.ltb_lt in Hi; unfold in_prefix; cbn [contains addr128 prefix128 fst snd].
  - (* IPv4 prefix, IPv4 client *)
    rewrite (contains_w_spec 32 a l x Hl). split.
    + intro H. exists (N.lor (N.shiftl 65535 32) x). split; [reflexivity|]. intros i Hi'.
      rewrite !mapped_bit by assumption. destruct (N.ltb_spec (127 - i) 32); [|reflexivity].
      specialize (H (i - 96)). replace (32 - 1 - (i - 96)) with (127 - i) in H by lia. apply H. lia.
    + intros [x' [Hx' H]] i Hi'. apply Some_inj in Hx'; subst x'.
      specialize (H (96 + i)). rewrite !mapped_bit in H by assumption.
      replace (127 - (96 + i)) with (32 - 1 - i) in H by lia.
      destruct (N.ltb_spec (32 - 1 - i) 32); [|lia]. apply H. lia.
  - (* IPv4 prefix, IPv6 client: must be ::ffff:y with y inside *)
    split.
    + destruct (from_mapped x) as [y|] eqn:Hm; [|discriminate].
      apply from_mapped_some in Hm. destruct Hm as [Hs ->].
      rewrite (contains_w_spec 32 a l _ Hl). intro H. exists x. split; [reflexivity|]. intros i Hi'.
      rewrite mapped_bit by assumption. destruct (N.ltb_spec (127 - i) 32).
      * specialize (H (i - 96)). replace (32 - 1 - (i - 96)) with (127 - i) in H by lia.
        rewrite H by lia. rewrite low32_bit. replace (127 - i <? 32) with true by (symmetry; apply N.ltb_lt; lia).
        apply andb_true_r.
      * rewrite <- Hs, N.shiftr_spec'. f_equal. lia.
    + intros [x' [Hx' H]]. apply Some_inj in Hx'; subst x'.
      assert (Hs : N.shiftr x 32 = 65535).
      { apply N.bits_inj. intro j. rewrite N.shiftr_spec'.
        destruct (N.leb_spec (j + 32) 127).
        - specialize (H (127 - (j + 32))). replace (127 - (127 - (j + 32))) with (j + 32) in H by lia.
          rewrite mapped_bit in H by assumption. replace (j + 32 <? 32) with false in H by (symmetry; apply N.ltb_ge; lia).
          replace (j + 32 - 32) with j in H by lia. symmetry. apply H. lia.
        - rewrite (testbit_high x 128) by (assumption || lia). symmetry. apply bit16_high. lia. }
      assert (Hm : from_mapped x = Some (N.land x (N.ones 32))) by (apply from_mapped_some; auto).
      rewrite Hm. apply (contains_w_spec 32 a l _ Hl). intros i Hi'.
      specialize (H (96 + i)). rewrite mapped_bit in H by assumption.
      replace (127 - (96 + i)) with (32 - 1 - i) in H by lia.
      replace (32 - 1 - i <? 32) with true in H by (symmetry; apply N.ltb_lt; lia).
      rewrite low32_bit. replace (32 - 1 - i <? 32) with true by (symmetry; apply N.ltb_lt; lia).
      rewrite andb_true_r. apply H. lia.
  - (* unix client: never inside a subnet *)
    split; [discriminate|]. intros [x' [Hx' _]]. discriminate.
  - (* IPv6 prefix, IPv4 client: decided by the mapped form *)
    unfold to_mapped, MAPPED. rewrite (contains_w_spec 128 a l _ Hl). split.
    + intro H. eexists. split; [reflexivity|]. exact H.
    + intros [x' [Hx' H]]. apply Some_inj in Hx'; subst x'. exact H.
  - rewrite (contains_w_spec 128 a l x Hl). split.
    + intro H. exists x. split; [reflexivity|]. exact H.
    + intros [x' [Hx' H]]. apply Some_inj in Hx'; subst x'. exact H.
  - split; [discriminate|]. intros [x' [Hx' _]]. discriminate.
Qed.

(* the executable form of the spec used by the monitor says the same *)
Lemma shiftr_eq_bits (b x l : N) : l <= 128 -> b < 2 ^ 128 -> x < 2 ^ 128 ->
  (N.shiftr b (128 - l) = N.shiftr x (128 - l) <->
   forall i, i < l -> N.testbit b (127 - i) = N.testbit x (127 - i)).
Proof.
  intros Hl Hb Hx. split.
  - intros H i Hi. assert (Hq := f_equal (fun v => N.testbit v (l - 1 - i)) H). cbv beta in Hq.
    rewrite !N.shiftr_spec' in Hq. replace (l - 1 - i + (128 - l)) with (127 - i) in Hq by lia. exact Hq.
  - intro H. apply N.bits_inj. intro j. rewrite !N.shiftr_spec'.
    destruct (N.leb_spec (j + (128 - l)) 127).
    + specialize (H (127 - (j + (128 - l)))). replace (127 - (127 - (j + (128 - l)))) with (j + (128 - l)) in H by lia.
      apply H. lia.
    + rewrite (testbit_high b 128), (testbit_high x 128) by (assumption || lia). reflexivity.
Qed.

Lemma mapped_lt (y : N) : y < 2 ^ 32 -> N.lor (N.shiftl 65535 32) y < 2 ^ 128.
Proof.
  intro Hy. destruct (N.eq_dec (N.lor (N.shiftl 65535 32) y) 0) as [->|Hne]; [reflexivity|].
  apply N.log2_lt_pow2; [lia|].
  rewrite N.log2_lor. apply N.max_lub_lt.
  - rewrite N.log2_shiftl by discriminate. reflexivity.
  - destruct (N.eq_dec y 0) as [->|Hy0]; [reflexivity|].
    apply N.lt_trans with 32; [|reflexivity]. apply N.log2_lt_pow2; lia.
Qed.

Lemma in_prefix_b_spec (p : prefix) (ip : addr) :
  wf_prefix p = true -> wf_addr ip = true -> (in_prefix_b p ip = true <-> in_prefix p ip).
Proof.
  intros Hp Hi. unfold in_prefix_b, in_prefix.
  assert (Hpb : fst (prefix128 p) < 2 ^ 128 /\ snd (prefix128 p) <= 128).
  { destruct p as [a l|a l]; cbn [wf_prefix] in Hp; apply andb_prop in Hp; destruct Hp as [Ha Hl];
      apply N.ltb_lt in Ha; apply N.leb_le in Hl; cbn [prefix128 fst snd]; split; try lia; try exact Ha.
    apply mapped_lt; exact Ha. }
  destruct Hpb as [Hb Hl].
  destruct ip as [x|x|]; cbn [addr128 wf_addr] in *.
  - apply N.ltb_lt in Hi. rewrite N.eqb_eq, (shiftr_eq_bits _ _ _ Hl Hb (mapped_lt x Hi)). split.
    + intro H. eexists; split; [reflexivity|exact H].
    + intros [x' [Hx' H]]; apply Some_inj in Hx'; subst x'; exact H.
  - apply N.ltb_lt in Hi. rewrite N.eqb_eq, (shiftr_eq_bits _ _ _ Hl Hb Hi). split.
    + intro H. eexists; split; [reflexivity|exact H].
    + intros [x' [Hx' H]]; apply Some_inj in Hx'; subst x'; exact H.
  - split; [discriminate|]. intros [x' [Hx' _]]; discriminate.
Qed.

(* ---- rules ---------------------------------------------------------------- *)
Lemma is_unix_spec (cl : addr) (u : bool) : Bool.eqb (is_unix cl) u = true <-> (cl = AUnix <-> u = true).
Proof. destruct cl, u; cbn; intuition (try discriminate; try congruence). Qed.

Lemma rule_check_spec (r : rule) (cl : addr) :
  wf_rule r = true -> wf_addr cl = true -> (rule_check r cl = true <-> rule_matches r cl).
Proof.
  intros Hr Hc. unfold rule_check, rule_matches, wf_rule in *. rewrite andb_true_iff.
  apply and_iff_both.
  - destruct (r_subnet r) as [ps|].
    + rewrite existsb_exists. rewrite forallb_forall in Hr. split.
      * intros [p [Hin Hp]] ps' Heq. inversion Heq; subst ps'. exists p. split; [exact Hin|].
        apply contains_spec; auto.
      * intro H. destruct (H ps eq_refl) as [p [Hin Hp]]. exists p. split; [exact Hin|].
        apply contains_spec; auto.
    + split; [intros _ ps Heq; discriminate|reflexivity].
  - destruct (r_unix r) as [u|].
    + rewrite is_unix_spec. split.
      * intros H u' Heq. inversion Heq; subst u'. exact H.
      * intro H. apply H. reflexivity.
    + split; [intros _ u Heq; discriminate|reflexivity].
Qed.

Lemma rule_matches_b_spec (r : rule) (cl : addr) :
  wf_rule r = true -> wf_addr cl = true -> (rule_matches_b r cl = true <-> rule_matches r cl).
Proof.
  intros Hr Hc. unfold rule_matches_b, rule_matches, wf_rule in *. rewrite andb_true_iff.
  apply and_iff_both.
  - destruct (r_subnet r) as [ps|].
    + rewrite existsb_exists. rewrite forallb_forall in Hr. split.
      * intros [p [Hin Hp]] ps' Heq. inversion Heq; subst ps'. exists p. split; [exact Hin|].
        apply in_prefix_b_spec; auto.
      * intro H. destruct (H ps eq_refl) as [p [Hin Hp]]. exists p. split; [exact Hin|].
        apply in_prefix_b_spec; auto.
    + split; [intros _ ps Heq; discriminate|reflexivity].
  - destruct (r_unix r) as [u|].
    + rewrite is_unix_spec. split.
      * intros H u' Heq. inversion Heq; subst u'. exact H.
      * intro H. apply H. reflexivity.
    + split; [intros _ u Heq; discriminate|reflexivity].
Qed.

(* check_authenticated returns the permissions of the first matching rule *)
Lemma check_authenticated_some (rs : list rule) (cl : addr) (p : perm) :
  wf_rules rs = true -> wf_addr cl = true ->
  (check_authenticated rs cl = Some p <-> exists r, first_match rs cl r /\ r_perm r = p).
Proof.
  intros Hrs Hc. induction rs as [|r0 rs IH]; cbn [check_authenticated].
  - split; [discriminate|]. intros [r [[pre [post [H _]]] _]]. destruct pre; discriminate.
  - cbn [wf_rules forallb] in Hrs. apply andb_prop in Hrs. destruct Hrs as [Hr0 Hrs].
    specialize (IH Hrs). pose proof (rule_check_spec r0 cl Hr0 Hc) as Hspec.
    destruct (rule_check r0 cl) eqn:Hck.
    + split.
      * intro H. inversion H. exists r0. split; [|reflexivity].
        exists [], rs. split; [reflexivity|]. split; [apply Hspec; reflexivity|constructor].
      * intros [r [[pre [post [Heq [Hm Hpre]]]] Hp]]. destruct pre as [|r1 pre].
        -- cbn in Heq. inversion Heq. subst. reflexivity.
        -- cbn in Heq. inversion Heq. subst r1. apply Forall_inv in Hpre.
           exfalso. apply Hpre. apply Hspec. reflexivity.
    + rewrite IH. split.
      * intros [r [[pre [post [Heq [Hm Hpre]]]] Hp]]. exists r. split; [|exact Hp].
        exists (r0 :: pre), post. split; [cbn; f_equal; exact Heq|]. split; [exact Hm|].
        constructor; [|exact Hpre]. intro Hm0. apply Hspec in Hm0. discriminate.
      * intros [r [[pre [post [Heq [Hm Hpre]]]] Hp]]. destruct pre as [|r1 pre].
        -- cbn in Heq. inversion Heq. subst r0. apply Hspec in Hm. discriminate.
        -- cbn in Heq. inversion Heq. subst r1. apply Forall_inv_tail in Hpre.
           exists r. split; [|exact Hp]. exists pre, post. auto.
Qed.

Lemma check_authenticated_none (rs : list rule) (cl : addr) :
  wf_rules rs = true -> wf_addr cl = true ->
  (check_authenticated rs cl = None <-> no_match rs cl).
Proof.
  intros Hrs Hc. unfold no_match. induction rs as [|r0 rs IH]; cbn [check_authenticated].
  - split; [constructor|reflexivity].
  - cbn [wf_rules forallb] in Hrs. apply andb_prop in Hrs. destruct Hrs as [Hr0 Hrs].
    specialize (IH Hrs). pose proof (rule_check_spec r0 cl Hr0 Hc) as Hspec.
    destruct (rule_check r0 cl) eqn:Hck.
    + split; [discriminate|]. intro H. apply Forall_inv in H. exfalso. apply H. apply Hspec. reflexivity.
    + rewrite IH. split.
      * intro H. constructor; [|exact H]. intro Hm. apply Hspec in Hm. discriminate.
      * intro H. apply Forall_inv_tail in H. exact H.
Qed.

Lemma first_match_unique (rs : list rule) (cl : addr) (r1 r2 : rule) :
  wf_rules rs = true -> wf_addr cl = true ->
  first_match rs cl r1 -> first_match rs cl r2 -> r_perm r1 = r_perm r2.
Proof.
  intros Hrs Hc H1 H2.
  assert (A : check_authenticated rs cl = Some (r_perm r1)) by (apply check_authenticated_some; eauto).
  assert (B : check_authenticated rs cl = Some (r_perm r2)) by (apply check_authenticated_some; eauto).
  congruence.
Qed.

(* ---- C08_decision ---------------------------------------------------------- *)
Lemma decision_granted (rs : list rule) (cl : addr) (o : op) :
  wf_rules rs = true -> wf_addr cl = true ->
  (require rs cl o = Granted <-> exists r, first_match rs cl r /\ permits r o = true).
Proof.
  intros Hrs Hc. unfold require, permits.
  destruct (check_authenticated rs cl) as [p|] eqn:Hca.
  - apply check_authenticated_some in Hca; auto. destruct Hca as [r [Hfm Hp]]. subst p.
    destruct (perm_has (r_perm r) o) eqn:Hh.
    + split; [|reflexivity]. intros _. exists r. auto.
    + split; [discriminate|]. intros [r' [Hfm' Hp']].
      rewrite (first_match_unique rs cl r r' Hrs Hc Hfm Hfm') in Hh. congruence.
  - split; [discriminate|]. intros [r [Hfm _]].
    assert (A : check_authenticated rs cl = Some (r_perm r)) by (apply check_authenticated_some; eauto).
    congruence.
Qed.

Lemma decision_not_authenticated (rs : list rule) (cl : addr) (o : op) :
  wf_rules rs = true -> wf_addr cl = true ->
  (require rs cl o = NotAuthenticated <-> no_match rs cl).
Proof.
  intros Hrs Hc. rewrite <- check_authenticated_none by assumption. unfold require.
  destruct (check_authenticated rs cl) as [p|].
  - destruct (perm_has p o); split; discriminate.
  - split; reflexivity.
Qed.

Lemma decision_not_authorised (rs : list rule) (cl : addr) (o : op) :
  wf_rules rs = true -> wf_addr cl = true ->
  (require rs cl o = NotAuthorised <-> exists r, first_match rs cl r /\ permits r o = false).
Proof.
  intros Hrs Hc. unfold require, permits.
  destruct (check_authenticated rs cl) as [p|] eqn:Hca.
  - apply check_authenticated_some in Hca; auto. destruct Hca as [r [Hfm Hp]]. subst p.
    destruct (perm_has (r_perm r) o) eqn:Hh.
    + split; [discriminate|]. intros [r' [Hfm' Hp']].
      rewrite (first_match_unique rs cl r r' Hrs Hc Hfm Hfm') in Hh. congruence.
    + split; [|reflexivity]. intros _. exists r. auto.
  - split; [discriminate|]. intros [r [Hfm _]].
    assert (A : check_authenticated rs cl = Some (r_perm r)) by (apply check_authenticated_some; eauto).
    congruence.
Qed.

(* the monitor's executable decision is the specification's *)
Lemma spec_granted_spec (rs : list rule) (cl : addr) (o : op) :
  wf_rules rs = true -> wf_addr cl = true ->
  (spec_granted rs cl o = true <-> exists r, first_match rs cl r /\ permits r o = true).
Proof.
  intros Hrs Hc. rewrite <- decision_granted by assumption.
  unfold spec_granted, require.
  assert (E : forall rs', wf_rules rs' = true ->
              match first_match_b rs' cl with Some r => Some (r_perm r) | None => None end = check_authenticated rs' cl).
  { induction rs' as [|r0 rs' IH]; intro Hw; [reflexivity|]. cbn [first_match_b check_authenticated].
    cbn [wf_rules forallb] in Hw. apply andb_prop in Hw. destruct Hw as [Hr0 Hw].
    assert (Hb : rule_matches_b r0 cl = rule_check r0 cl).
    { apply eq_true_iff_eq. rewrite rule_matches_b_spec, rule_check_spec by assumption. reflexivity. }
    rewrite Hb. destruct (rule_check r0 cl); [reflexivity|]. apply IH. exact Hw. }
  rewrite <- (E rs Hrs). unfold permits. destruct (first_match_b rs cl) as [r|].
  - destruct (perm_has (r_perm r) o); split; (reflexivity || discriminate).
  - split; discriminate.
Qed.

(* ---- gates ------------------------------------------------------------------ *)
Lemma http_gate (rs : list rule) (cl : addr) (get : bool) (path : N) :
  wf_rules rs = true -> wf_addr cl = true ->
  (http_status rs cl get path = 403 <->
   ~ exists r, first_match rs cl r /\ permits r (http_perm get path) = true).
Proof.
  intros Hrs Hc. rewrite <- decision_granted by assumption. unfold http_status, http_ok_status.
  destruct (require rs cl (http_perm get path)).
  - split; [|intro H; exfalso; apply H; reflexivity].
    destruct (get && (path <? 3)); discriminate.
  - split; [intros _; discriminate|reflexivity].
  - split; [intros _; discriminate|reflexivity].
Qed.

Lemma http_served (rs : list rule) (cl : addr) (get : bool) (path : N) :
  http_status rs cl get path <> 403 -> require rs cl (http_perm get path) = Granted.
Proof.
  unfold http_status. destruct (require rs cl (http_perm get path)); [reflexivity| |]; intro H; exfalso; apply H; reflexivity.
Qed.

Lemma dns_gate_spec (rs : list rule) (cl : addr) :
  wf_rules rs = true -> wf_addr cl = true ->
  (dns_gate rs cl = DnsRefusedByAcl <-> ~ exists r, first_match rs cl r /\ permits r OpDns = true).
Proof.
  intros Hrs Hc. rewrite <- decision_granted by assumption. unfold dns_gate.
  destruct (require rs cl OpDns).
  - split; [discriminate|intro H; exfalso; apply H; reflexivity].
  - split; [intros _; discriminate|reflexivity].
  - split; [intros _; discriminate|reflexivity].
Qed.

(* ---- default ACLs ------------------------------------------------------------ *)
(* erbium.conf(5): "The defaults for ACLs are as follows" -- written with the
   access names of the manual (1 dns-recursion, 5 http-ro) *)
Definition documented_default (addresses : list prefix) : list rule :=
  [ {| r_subnet := Some addresses; r_unix := None; r_perm := perm_of_accesses [1; 5] |};
    {| r_subnet := Some [P4 2130706432 8; P6 1 128]; r_unix := None; r_perm := perm_of_accesses [1; 5] |};
    {| r_subnet := None; r_unix := Some true; r_perm := perm_of_accesses [5] |} ].

Lemma default_acls_documented (addresses : list prefix) : default_acls addresses = documented_default addresses.
Proof. reflexivity. Qed.

Lemma http_paths :
  http_perm true 0 = OpHttp /\ http_perm true 1 = OpMetrics /\ http_perm true 2 = OpLeases /\
  (forall p, 3 <= p -> http_perm true p = OpLeases) /\ (forall p, http_perm false p = OpLeases).
Proof.
  repeat split; try reflexivity. intros p Hp. unfold http_perm.
  destruct p as [|[q|q|]]; try reflexivity; try lia.
Qed.

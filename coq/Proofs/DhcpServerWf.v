(* Well-formedness of what the composed server step puts on the wire: a message
   decoded from octets has bounded fields; the reply built from it is wf_dhcp
   (so decode (encode reply) = reply, C12_roundtrip) and its encoding consists
   of octets, so the frame around it is a valid frame (C12_frame_valid). *)
From Erbium Require Import Lib.Base Model.DhcpCodec Model.DhcpOptVal Model.DhcpPolicy Model.DhcpAddrs
  Model.DhcpPool Model.DhcpHandler Model.Frame Model.DhcpServer.
From Erbium Require Import Proofs.DhcpPool Proofs.DhcpHandler Proofs.DhcpServer.
From Erbium Require Proofs.DhcpCodec Proofs.Frame.

(* ---- octet lists -------------------------------------------------------------- *)
Lemma bytes_ok_app : forall a b, bytes_ok (a ++ b) = bytes_ok a && bytes_ok b.
Proof. intros. unfold bytes_ok. apply forallb_app. Qed.

Lemma bytes_ok_firstn : forall n l, bytes_ok l = true -> bytes_ok (firstn n l) = true.
Proof.
  induction n; intros l H; simpl; [reflexivity|]. destruct l as [|x l]; [reflexivity|].
  simpl in *. apply andb_true_iff in H. destruct H as [H1 H2]. rewrite H1. simpl. apply IHn. exact H2.
Qed.
Lemma bytes_ok_skipn : forall n l, bytes_ok l = true -> bytes_ok (skipn n l) = true.
Proof.
  induction n; intros l H; simpl; [exact H|]. destruct l as [|x l]; [reflexivity|].
  simpl in H. apply andb_true_iff in H. destruct H as [_ H2]. apply IHn. exact H2.
Qed.
Lemma bytes_ok_takeN : forall n l, bytes_ok l = true -> bytes_ok (takeN n l) = true.
Proof. intros. apply bytes_ok_firstn. assumption. Qed.
Lemma bytes_ok_dropN : forall n l, bytes_ok l = true -> bytes_ok (dropN n l) = true.
Proof. intros. apply bytes_ok_skipn. assumption. Qed.
Lemma bytes_ok_repeat0 : forall n, bytes_ok (repeatN 0 n) = true.
Proof. intros. unfold repeatN. induction (N.to_nat n); simpl; [reflexivity|assumption]. Qed.
Lemma bytes_ok_be32 : forall v, bytes_ok (be32 v) = true.
Proof.
  intros. unfold be32, bytes_ok, byte_ok. simpl.
  repeat (match goal with |- context [?x mod 256 <? 256] =>
            replace (x mod 256 <? 256) with true by (symmetry; apply N.ltb_lt; apply N.mod_lt; discriminate) end).
  reflexivity.
Qed.
Lemma bytes_ok_be16 : forall v, bytes_ok (be16 v) = true.
Proof.
  intros. unfold be16, bytes_ok, byte_ok. simpl.
  repeat (match goal with |- context [?x mod 256 <? 256] =>
            replace (x mod 256 <? 256) with true by (symmetry; apply N.ltb_lt; apply N.mod_lt; discriminate) end).
  reflexivity.
Qed.

Lemma fold_be_bound : forall l acc, bytes_ok l = true ->
  fold_left (fun a b => a * 256 + b) l acc < (acc + 1) * 256 ^ lenN l.
Proof.
  induction l as [|x l IH]; intros acc H.
  - simpl. unfold lenN. simpl. lia.
  - simpl in H. apply andb_true_iff in H. destruct H as [Hx Hl]. unfold byte_ok in Hx. apply N.ltb_lt in Hx.
    simpl fold_left. specialize (IH (acc * 256 + x) Hl).
    unfold lenN in *. simpl length. rewrite Nat2N.inj_succ. rewrite N.pow_succ_r'.
    eapply N.lt_le_trans; [exact IH|].
    replace ((acc + 1) * (256 * 256 ^ N.of_nat (length l))) with (((acc + 1) * 256) * 256 ^ N.of_nat (length l)) by lia.
    apply N.mul_le_mono_r. lia.
Qed.
Lemma be_decode_bound : forall l, bytes_ok l = true -> be_decode l < 256 ^ lenN l.
Proof. intros l H. pose proof (fold_be_bound l 0 H). unfold be_decode. lia. Qed.

(* ---- what decode yields ---------------------------------------------------------- *)
Lemma get_u8_inv : forall l x r, get_u8 l = Ok (x, r) -> l = x :: r.
Proof. intros l x r H. destruct l; simpl in H; [discriminate|]. inversion H. reflexivity. Qed.
Lemma get_bytes_inv : forall n l x r, get_bytes n l = Ok (x, r) -> x = takeN n l /\ r = dropN n l /\ n <= lenN l.
Proof.
  intros n l x r H. unfold get_bytes in H. destruct (n <=? lenN l) eqn:E; [|discriminate].
  inversion H. apply N.leb_le in E. auto.
Qed.
Lemma get_be_inv : forall n l v r, get_be n l = Ok (v, r) ->
  v = be_decode (takeN n l) /\ r = dropN n l /\ n <= lenN l.
Proof.
  intros n l v r H. unfold get_be in H. destruct (get_bytes n l) as [[x r0]|x|x] eqn:G; cbn [obind] in H; try discriminate.
  inversion H; subst. apply get_bytes_inv in G. destruct G as [G1 [G2 G3]]. subst. auto.
Qed.
Lemma lenN_takeN : forall (l : list N) n, n <= lenN l -> lenN (takeN n l) = n.
Proof. intros. apply Proofs.DhcpCodec.lenN_takeN_le. assumption. Qed.

Lemma get_be_ok : forall n l v r, get_be n l = Ok (v, r) -> bytes_ok l = true ->
  v < 256 ^ n /\ bytes_ok r = true.
Proof.
  intros n l v r H B. apply get_be_inv in H. destruct H as [H1 [H2 H3]]. subst. split.
  - pose proof (be_decode_bound (takeN n l) (bytes_ok_takeN n l B)) as X. rewrite lenN_takeN in X by assumption. exact X.
  - apply bytes_ok_dropN. exact B.
Qed.

Record hdr_ok (m : dhcp) : Prop := {
  ho_htype : d_htype m < 256; ho_hlen : d_hlen m = lenN (d_chaddr m); ho_hlen16 : d_hlen m <= 16;
  ho_chaddr : bytes_ok (d_chaddr m) = true; ho_xid : d_xid m < 4294967296; ho_flags : d_flags m < 65536;
  ho_ciaddr : d_ciaddr m < 4294967296; ho_giaddr : d_giaddr m < 4294967296 }.

Ltac bind_u8 H x b B :=
  match type of H with
  | obind (get_u8 ?l) _ = Ok _ =>
    let E := fresh "E" in
    destruct (get_u8 l) as [[x b]|?|?] eqn:E; cbn [obind] in H; [|discriminate H|discriminate H];
    apply get_u8_inv in E; subst l; simpl in B; apply andb_true_iff in B;
    let Bx := fresh "Bx" in destruct B as [Bx B]
  end.
Ltac bind_be H x b B :=
  match type of H with
  | obind (get_be ?n ?l) _ = Ok _ =>
    let E := fresh "E" in
    destruct (get_be n l) as [[x b]|?|?] eqn:E; cbn [obind] in H; [|discriminate H|discriminate H];
    let Bv := fresh "Bv" in
    destruct (get_be_ok _ _ _ _ E B) as [Bv ?]; clear B E
  end.

Lemma decode_hdr_ok : forall b m, decode b = Ok m -> bytes_ok b = true -> hdr_ok m.
Proof.
  intros b m H B. unfold decode in H.
  bind_u8 H xop b1 B. bind_u8 H htype b2 B. bind_u8 H hlen b3 B. bind_u8 H hops b4 B.
  bind_be H xid b5 B. rename H0 into B5.
  bind_be H secs b6 B5. rename H0 into B6.
  bind_be H flags b7 B6. rename H0 into B7.
  bind_be H ciaddr b8 B7. rename H0 into B8.
  bind_be H yiaddr b9 B8. rename H0 into B9.
  bind_be H siaddr b10 B9. rename H0 into B10.
  bind_be H giaddr b11 B10. rename H0 into B11.
  destruct (get_bytes 16 b11) as [[chaddr b12]|?|?] eqn:EC; cbn [obind] in H; try discriminate H.
  destruct (16 <? hlen) eqn:HL; [discriminate H|]. apply N.ltb_ge in HL.
  destruct (get_bytes 64 b12) as [[sname b13]|?|?]; cbn [obind] in H; try discriminate H.
  destruct (get_bytes 128 b13) as [[file b14]|?|?]; cbn [obind] in H; try discriminate H.
  destruct (get_be 4 b14) as [[mg b15]|?|?]; cbn [obind] in H; try discriminate H.
  destruct (negb (mg =? 1669485411)); [discriminate H|].
  destruct (parse_options (S (length b15)) b15 []) as [opts|?|?]; cbn [obind] in H; try discriminate H.
  inversion H; subst m. clear H.
  apply get_bytes_inv in EC. destruct EC as [EC1 [_ EC3]]. subst chaddr.
  unfold byte_ok in *. repeat match goal with X : (_ <? 256) = true |- _ => apply N.ltb_lt in X end.
  constructor; simpl; try assumption.
  - rewrite lenN_takeN; [reflexivity|]. rewrite lenN_takeN by assumption. exact HL.
  - apply bytes_ok_takeN. apply bytes_ok_takeN. exact B11.
Qed.

(* ---- the reply is well-formed ------------------------------------------------------ *)
Lemma existsb_filter_sub : forall (f p : N * list N -> bool) l,
  existsb f (filter p l) = true -> existsb f l = true.
Proof.
  induction l as [|x l IH]; simpl; intro H; [discriminate|].
  destruct (p x); simpl in H.
  - apply orb_true_iff in H. destruct H as [H|H]; [rewrite H; reflexivity|]. rewrite (IH H). apply orb_true_r.
  - rewrite (IH H). apply orb_true_r.
Qed.
Lemma kd_filter : forall p os, keys_distinct os = true -> keys_distinct (filter p os) = true.
Proof.
  induction os as [|[c v] os IH]; intro H; simpl in *; [reflexivity|].
  apply andb_true_iff in H. destruct H as [H1 H2]. destruct (p (c, v)); simpl.
  - rewrite (IH H2). rewrite andb_true_r. apply negb_true_iff. apply negb_true_iff in H1.
    destruct (existsb (fun o => fst o =? c) (filter p os)) eqn:E; [|reflexivity].
    apply existsb_filter_sub in E. congruence.
  - apply IH. exact H2.
Qed.
Lemma kd_set_opt : forall os c v, keys_distinct os = true -> keys_distinct (set_opt os c v) = true.
Proof.
  intros. unfold set_opt. simpl. rewrite (kd_filter _ _ H). rewrite andb_true_r. apply negb_true_iff.
  induction os as [|[c' v'] os IH]; simpl; [reflexivity|].
  simpl in H. apply andb_true_iff in H. destruct H as [_ H].
  destruct (c' =? c) eqn:E; simpl; [apply IH; exact H|]. rewrite E. simpl. apply IH. exact H.
Qed.
Lemma wfo_set_opt : forall os c v, forallb wf_option os = true -> wf_option (c, v) = true ->
  forallb wf_option (set_opt os c v) = true.
Proof.
  intros. unfold set_opt. simpl. rewrite H0. simpl.
  induction os as [|o os IH]; simpl in *; [reflexivity|].
  apply andb_true_iff in H. destruct H as [H1 H2]. destruct (negb (fst o =? c)); simpl; [rewrite H1; simpl|]; apply IH; exact H2.
Qed.

Lemma reply_wf : forall i m ack ip secs,
  hdr_ok m -> ip < 4294967296 ->
  forallb wf_option (i_reply_opts i) = true -> keys_distinct (i_reply_opts i) = true ->
  wf_dhcp (mk_reply i m ack ip secs) = true.
Proof.
  intros i m ack ip secs [H1 H2 H3 H4 H5 H6 H7 H8] Hip WO KD.
  unfold wf_dhcp, mk_reply. cbn [d_op d_htype d_hlen d_hops d_xid d_secs d_flags d_ciaddr d_yiaddr d_siaddr
                                  d_giaddr d_chaddr d_sname d_file d_options].
  assert (WF : forallb wf_option
                 (set_opt (set_opt (set_opt (i_reply_opts i) 54
                    (be32 (if ack then match serverid m with Some s => s | None => i_serverip i end else i_serverip i)))
                    53 [if ack then 5 else 2]) 51 (be32 (cast 32 secs))) = true).
  { apply wfo_set_opt; [apply wfo_set_opt; [apply wfo_set_opt; [exact WO|]|]|].
    - unfold wf_option. simpl fst. simpl snd. rewrite bytes_ok_be32. reflexivity.
    - unfold wf_option. destruct ack; reflexivity.
    - unfold wf_option. simpl fst. simpl snd. rewrite bytes_ok_be32. reflexivity. }
  rewrite WF. rewrite (kd_set_opt _ _ _ (kd_set_opt _ _ _ (kd_set_opt _ _ _ KD))).
  rewrite H4. rewrite (proj2 (N.eqb_eq _ _) H2). rewrite (proj2 (N.leb_le _ _) H3).
  unfold byte_ok. rewrite (proj2 (N.ltb_lt _ _) H1), (proj2 (N.ltb_lt _ _) H5), (proj2 (N.ltb_lt _ _) H6),
    (proj2 (N.ltb_lt _ _) H8), (proj2 (N.ltb_lt _ _) Hip).
  destruct ack; [rewrite (proj2 (N.ltb_lt _ _) H7)|]; reflexivity.
Qed.

(* ---- the encoding consists of octets ------------------------------------------------- *)
Lemma enc_chunks_ok : forall fuel code v, code < 256 -> bytes_ok v = true -> bytes_ok (enc_chunks fuel code v) = true.
Proof.
  induction fuel; intros code v C B; simpl; [reflexivity|].
  destruct (lenN v <=? 255) eqn:L.
  - apply N.leb_le in L. simpl. unfold byte_ok.
    rewrite (proj2 (N.ltb_lt _ _) C). replace (lenN v <? 256) with true by (symmetry; apply N.ltb_lt; lia). exact B.
  - simpl. unfold byte_ok. rewrite (proj2 (N.ltb_lt _ _) C). simpl.
    rewrite bytes_ok_app. rewrite (bytes_ok_takeN 255 v B). simpl. apply IHfuel; [exact C|apply bytes_ok_dropN; exact B].
Qed.
Lemma enc_options_ok : forall os, forallb wf_option os = true -> bytes_ok (enc_options os) = true.
Proof.
  intros os H. unfold enc_options. rewrite bytes_ok_app. rewrite andb_true_r.
  induction os as [|o os IH]; simpl in *; [reflexivity|].
  apply andb_true_iff in H. destruct H as [H1 H2]. rewrite bytes_ok_app. rewrite (IH H2). rewrite andb_true_r.
  unfold wf_option in H1. apply andb_true_iff in H1. destruct H1 as [H1 Hb]. apply andb_true_iff in H1. destruct H1 as [_ Hc].
  apply N.ltb_lt in Hc. unfold enc_option. apply enc_chunks_ok; [lia|exact Hb].
Qed.
Lemma fixed_ok : forall l v, bytes_ok v = true -> bytes_ok (fixed l v) = true.
Proof. intros. unfold fixed. rewrite bytes_ok_app. rewrite (bytes_ok_takeN l v H). apply bytes_ok_repeat0. Qed.

Lemma encode_bytes_ok : forall m, wf_dhcp m = true -> bytes_ok (encode m) = true.
Proof.
  intros m H. unfold wf_dhcp in H.
  repeat (apply andb_true_iff in H; destruct H as [H ?]).
  unfold encode. repeat rewrite bytes_ok_app.
  rewrite !bytes_ok_be32, !bytes_ok_be16.
  rewrite (fixed_ok 16 _ H15), (fixed_ok 64 _ H6), (fixed_ok 128 _ H3).
  rewrite (enc_options_ok _ H1).
  assert (HL : byte_ok (d_hlen m) = true).
  { unfold byte_ok. apply N.leb_le in H16. apply N.ltb_lt. lia. }
  simpl. rewrite H, H19, HL, H18. reflexivity.
Qed.

(* ---- S03, wire level ------------------------------------------------------------------ *)
Definition wf_env (e : env) : Prop :=
  bytes_ok (e_mac e) = true /\ lenN (e_mac e) = 6 /\ e_port e < 65536.

Lemma lenN_be32 : forall v, lenN (be32 v) = 4.
Proof. reflexivity. Qed.

Lemma wire_facts : forall cfg st t1 t2 e b ans st' f,
  server_step cfg st t1 t2 e b ans = Ok (st', Some f) ->
  bytes_ok b = true -> wf_env e ->
  (forall x, In x (sc_universe cfg) -> x < 4294967296) ->
  (forall m, decode b = Ok m ->
     let os := to_options (rs_opts (snd (walk_of cfg (request_of e m)))) in
     forallb wf_option os = true /\ keys_distinct os = true) ->
  exists m r mac,
    decode b = Ok m /\ reply_of cfg st t2 e b ans = Some r /\ mac = takeN 6 (d_chaddr m) /\
    f = udp4_frame (frame_args e m r mac) /\
    wf_dhcp r = true /\ decode (encode r) = Ok r /\
    (lenN (encode r) <= 65507 -> valid_frame (frame_args e m r mac) f = true).
Proof.
  intros cfg st t1 t2 e b ans st' f H B [WE1 [WE2 WE3]] U PO.
  destruct (frame_facts _ _ _ _ _ _ _ _ _ H) as [m [r [ip [secs [k [mac [G [EM [L6 [EF [EP ED]]]]]]]]]]].
  pose proof (gs_decode _ _ _ _ _ _ _ _ _ _ _ _ _ G) as D.
  destruct (gs_handle _ _ _ _ _ _ _ _ _ _ _ _ _ G) as [ldb HH].
  pose proof (gs_alloc _ _ _ _ _ _ _ _ _ _ _ _ _ G) as A. rewrite (gs_ans _ _ _ _ _ _ _ _ _ _ _ _ _ G) in A.
  pose proof (decode_hdr_ok _ _ D B) as HO.
  destruct (PO m D) as [WO KD].
  destruct (reply_shape _ _ _ _ _ HH) as [t [ip' [secs' [MT [AL [ER _]]]]]].
  simpl in AL. inversion AL; subst ip' secs'.
  assert (Hip : ip < 4294967296).
  { apply U. pose proof (granted_in_pool _ _ _ _ _ _ _ _ A) as P. simpl in P. unfold pool_list in P.
    destruct (rs_addr (snd (walk_of cfg (request_of e m)))); [|destruct P]. apply filter_In in P. tauto. }
  assert (WF : wf_dhcp r = true).
  { subst r. apply reply_wf; simpl; assumption. }
  exists m, r, mac. split; [exact D|]. split.
  { unfold reply_of. rewrite D. rewrite (gs_ans _ _ _ _ _ _ _ _ _ _ _ _ _ G). rewrite HH. reflexivity. }
  split; [exact EM|]. split; [exact EF|]. split; [exact WF|]. split; [apply Proofs.DhcpCodec.decode_encode; exact WF|].
  intro LL. rewrite EF.
  assert (WA : wf_udp4_args (frame_args e m r mac) = true).
  { unfold wf_udp4_args, frame_args. cbn [u_src_ip u_src_port u_src_mac u_dst_ip u_dst_port u_dst_mac u_payload].
    rewrite !bytes_ok_be32, !lenN_be32, WE1, WE2, (proj2 (N.ltb_lt _ _) WE3), (encode_bytes_ok _ WF).
    subst mac. rewrite (bytes_ok_takeN 6 _ (ho_chaddr _ HO)). rewrite lenN_takeN by exact L6. reflexivity. }
  assert (PL : lenN (u_payload (frame_args e m r mac)) <= 65507) by (rewrite EP; exact LL).
  destruct (Proofs.Frame.frame_build_valid _ WA PL) as [_ V]. exact V.
Qed.

(* C03 on the wire: the assembled reply, serialised without dropping a record, is a strictly
   well-formed message whose sections are the upstream reply's (corollary of C04/C14). *)
From Erbium Require Import Lib.Base Model.DnsName Model.DnsCodec Model.DnsStrict Model.DnsForward
  Proofs.DnsName Proofs.DnsCodec Proofs.DnsRecord Proofs.DnsPacket Proofs.DnsStrictProofs.

Definition reply0 (q up : pkt) (eo : opts) : pkt :=
  {| qid := qid q; rd := false; tc := tc up; aa := aa up; qr := true; opcode := 0;
     cd := cd up; ad := ad up; ra := ra up; rcode := rcode up; bufsize := 4096;
     edns_ver := Some 0; edns_do := false;
     qname := qname q; qtype := qtype q; qclass := qclass q;
     answer := answer up; nameserver := nameserver up; additional := additional up;
     edns := Some eo |}.

(* the EDNS version of the reply is written as 0 whether the field is None or Some 0 *)
Lemma in_reply_encoding q up eo size : encode_sized_t (in_reply q up eo) size = encode_sized_t (reply0 q up eo) size.
Proof. unfold in_reply, reply0. destruct (edns_ver q); reflexivity. Qed.

Lemma reply0_wf q up eo :
  wf_pkt q = true -> wf_pkt up = true -> wf_opts eo = true -> lenN (additional up) < 65535 ->
  wf_pkt (reply0 q up eo) = true.
Proof.
  intros Hq Hu He Hl.
  apply wf_pkt_parts in Hq as (Qid & _ & _ & _ & _ & Qn & Qt & Qc & _).
  apply wf_pkt_parts in Hu as (_ & _ & Urc & _ & _ & _ & _ & _ & Uan & Uns & Uad & Uno & Lan & Lns & _ & _).
  unfold wf_pkt, reply0. cbn [qid opcode rcode bufsize qname qtype qclass answer nameserver additional edns edns_ver edns_do opt_rr].
  unfold w16. rewrite Qn, Uan, Uns, Uad, Uno, He.
  rewrite lenN_app. change (lenN [_]) with 1.
  repeat match goal with |- context [?a <? ?b] =>
    replace (a <? b) with true by (symmetry; apply N.ltb_lt; lia) end.
  reflexivity.
Qed.

Lemma reply_on_the_wire q up eo size e :
  wf_pkt q = true -> wf_pkt up = true -> wf_opts eo = true -> lenN (additional up) < 65535 ->
  encode_sized_t (in_reply q up eo) size = Ok (e, false) ->
  exists r, strict_decode e = Some r /\
    qid r = qid q /\ qname r = qname q /\ qtype r = qtype q /\ qclass r = qclass q /\ qr r = true /\
    rcode r = rcode up /\ answer r = answer up /\ nameserver r = nameserver up /\ additional r = additional up.
Proof.
  intros Hq Hu He Hl H. rewrite in_reply_encoding in H.
  pose proof (reply0_wf q up eo Hq Hu He Hl) as Hw.
  destruct (strict_decode_sized _ _ _ _ Hw H) as (ac & nc & dc & Hs & _ & _ & _ & Hf & _).
  destruct (Hf eq_refl) as (Ea & En & Ed). cbn [answer nameserver additional reply0] in Ea, En, Ed.
  eexists. split; [exact Hs|].
  unfold sized_result, opt_kept. cbn [reply0 qid qname qtype qclass qr rcode answer nameserver additional edns].
  repeat split; auto.
  - destruct (Nat.eqb_spec (N.to_nat dc) (length (additional up ++ opt_rr (reply0 q up eo)))); [reflexivity|contradiction].
  - rewrite Ea. apply firstn_all.
  - rewrite En. apply firstn_all.
  - apply firstn_all2. rewrite Ed, app_length. lia.
Qed.

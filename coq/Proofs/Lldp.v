(* Proofs about Model/Lldp.v: no frame makes the LLDP receive path panic, and
   the decoding loop terminates by itself (fuel is never exhausted). *)
From Erbium Require Import Lib.Base Model.Lldp Proofs.Total.

Local Ltac ne99 := (unfold FUEL, L_EOF, L_INVALID; discriminate).

Lemma good_b_u8 : forall l, good (b_u8 l).
Proof. destruct l; simpl; [ne99 | exact I]. Qed.
Lemma good_b_bytes : forall n l, good (b_bytes n l).
Proof. intros; unfold b_bytes; destruct (n <=? lenN l); simpl; [exact I | ne99]. Qed.
Lemma good_b_be16 : forall l, good (b_be16 l).
Proof. intros; unfold b_be16. apply good_bind; [apply good_b_bytes | intros [? ?] _; exact I]. Qed.
Lemma good_b_be32 : forall l, good (b_be32 l).
Proof. intros; unfold b_be32. apply good_bind; [apply good_b_bytes | intros [? ?] _; exact I]. Qed.

Local Ltac step :=
  first
  [ apply good_ok
  | apply good_err; ne99
  | apply good_b_u8 | apply good_b_bytes | apply good_b_be16 | apply good_b_be32
  | (apply good_bind; [ | intros [? ?] _ ])
  | match goal with |- good (if ?c then _ else _) => destruct c end
  | match goal with |- good (match ?x with _ => _ end) => destruct x end ].
Local Ltac steps := repeat step.

Lemma good_id_subtype : forall p, good (id_subtype p).
Proof. intros; unfold id_subtype; steps. Qed.
Lemma good_mgmt : forall p, good (mgmt_from_wire p).
Proof. intros; unfold mgmt_from_wire; steps. Qed.
Lemma good_org : forall p, good (org_from_wire p).
Proof. intros; unfold org_from_wire; steps. Qed.

Lemma good_tlv_from_wire : forall l, good (tlv_from_wire l).
Proof.
  intros; unfold tlv_from_wire.
  apply good_bind; [apply good_b_u8 | intros [b0 r] _].
  apply good_bind; [apply good_b_u8 | intros [len r1] _].
  apply good_bind; [apply good_b_bytes | intros [p rest] _].
  apply good_bind; [ | intros; apply good_ok].
  repeat match goal with |- good (if ?c then _ else _) => destruct c end;
    try apply good_mgmt; try apply good_org; try apply good_ok;
    try (apply good_bind; [apply good_id_subtype | intros [? ?] _; apply good_ok]);
    steps.
Qed.

Lemma b_u8_inv : forall l b r, b_u8 l = Ok (b, r) -> l = b :: r.
Proof. destruct l; simpl; intros; congruence. Qed.
Lemma b_bytes_inv : forall n l p r, b_bytes n l = Ok (p, r) -> r = dropN n l.
Proof. intros n l p r; unfold b_bytes; destruct (n <=? lenN l); intros; congruence. Qed.

(* a decoded TLV consumes at least its two header octets *)
Lemma tlv_from_wire_shrinks : forall l t rest,
  tlv_from_wire l = Ok (t, rest) -> (length rest + 2 <= length l)%nat.
Proof.
  intros l t rest. unfold tlv_from_wire.
  destruct (b_u8 l) as [[b0 r]| |] eqn:E0; simpl; try discriminate.
  destruct (b_u8 r) as [[len r1]| |] eqn:E1; simpl; try discriminate.
  destruct (b_bytes len r1) as [[p rest']| |] eqn:E2; simpl; try discriminate.
  intros H. apply bind_pair_snd in H. subst rest.
  apply b_u8_inv in E0. apply b_u8_inv in E1. apply b_bytes_inv in E2. subst.
  simpl. pose proof (length_dropN _ len r1). lia.
Qed.

Lemma good_pkt_loop : forall fuel l acc, (length l < fuel)%nat -> good (pkt_loop fuel l acc).
Proof.
  induction fuel as [|f IH]; intros l acc Hf; [lia|].
  simpl. destruct l as [|x l']; [apply good_err; ne99|].
  apply good_bind; [apply good_tlv_from_wire|].
  intros [t rest] E. destruct (is_end t); [apply good_ok|].
  apply IH. apply tlv_from_wire_shrinks in E. simpl in *. lia.
Qed.

Lemma good_lldp_from_wire : forall l, good (lldp_from_wire l).
Proof. intros; unfold lldp_from_wire; apply good_pkt_loop; lia. Qed.

Lemma good_lldp_handle_frame : forall b, good (lldp_handle_frame b).
Proof.
  intros; unfold lldp_handle_frame. destruct (frame_payload b).
  - apply good_lldp_from_wire.
  - apply good_err; ne99.
Qed.

Lemma lldp_total : forall b k, lldp_handle_frame b <> Panic k.
Proof. intros; apply good_no_panic, good_lldp_handle_frame. Qed.
Lemma lldp_from_wire_total : forall b k, lldp_from_wire b <> Panic k.
Proof. intros; apply good_no_panic, good_lldp_from_wire. Qed.
Lemma lldp_no_fuel : forall b, lldp_handle_frame b <> Err L_FUEL.
Proof. intros; apply (good_no_fuel _ _ (good_lldp_handle_frame b)). Qed.

(* the service outlives any sequence of frames and still decodes a well-formed one afterwards *)
Lemma lldp_serve_alive : forall frames, exists res, lldp_serve frames = Ok res /\ length res = length frames.
Proof.
  induction frames as [|f r [res [E L]]]; [exists []; split; reflexivity|].
  simpl. pose proof (good_lldp_handle_frame f) as G.
  destruct (lldp_handle_frame f); simpl in G; try contradiction;
    rewrite E; simpl; eexists; split; try reflexivity; simpl; congruence.
Qed.

Lemma lldp_serve_app : forall a b ra rb,
  lldp_serve a = Ok ra -> lldp_serve b = Ok rb -> lldp_serve (a ++ b) = Ok (ra ++ rb).
Proof.
  induction a as [|f r IH]; intros b ra rb Ha Hb; simpl in *.
  - inversion Ha; subst; exact Hb.
  - destruct (lldp_handle_frame f); try discriminate;
      (destruct (lldp_serve r) as [tl| |] eqn:E; simpl in Ha; try discriminate;
       inversion Ha; subst; rewrite (IH b tl rb eq_refl Hb); reflexivity).
Qed.

Lemma lldp_still_answers : forall bs v p, lldp_handle_frame v = Ok p ->
  exists res, lldp_serve (bs ++ [v]) = Ok (res ++ [1]) /\ length res = length bs.
Proof.
  intros bs v p Hv. destruct (lldp_serve_alive bs) as [res [E L]].
  exists res. split; [|exact L]. apply lldp_serve_app; [exact E|].
  simpl. rewrite Hv. reflexivity.
Qed.

(* the header skip: exactly the frames of at least 14 octets have a payload, and it is the rest *)
Lemma frame_payload_spec : forall hdr p, length hdr = 14%nat -> frame_payload (hdr ++ p) = Some p.
Proof.
  intros hdr p H. unfold frame_payload, lenN, dropN. rewrite app_length, H.
  assert (E : 14 <=? N.of_nat (14 + length p) = true) by (apply N.leb_le; lia). rewrite E.
  change (N.to_nat 14) with 14%nat. rewrite <- H. rewrite skipn_app, skipn_all, Nat.sub_diag. reflexivity.
Qed.
Lemma frame_payload_short : forall f, (length f < 14)%nat -> frame_payload f = None.
Proof.
  intros f H. unfold frame_payload, lenN.
  assert (E : 14 <=? N.of_nat (length f) = false) by (apply N.leb_gt; lia). rewrite E. reflexivity.
Qed.

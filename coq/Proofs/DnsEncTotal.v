(* The encoder never panics on a well-formed message (any limit >= 512). *)
From Erbium Require Import Lib.Base Model.DnsName Model.DnsCodec Proofs.DnsName Proofs.DnsCodec Proofs.DnsRecord Proofs.DnsPacket.

Lemma push_rrs_total size : forall rs buf kids,
  0 < lenN buf -> Forall (tree_ok buf []) kids -> forallb wf_rr rs = true ->
  exists bs k c t, push_rrs size (lenN buf) kids rs = Ok (bs, k, c, t) /\
                   (t = false -> Forall (tree_ok (buf ++ bs) []) k).
Proof.
  induction rs as [|r rs IH]; intros buf kids Hpos Hk Hwf.
  - exists [], kids, 0, false. split; [reflexivity|]. intros _. now rewrite app_nil_r.
  - simpl in Hwf. apply andb_true_iff in Hwf as [Hr Hrs].
    destruct (rr_written buf kids r Hpos Hk Hr) as (b & k1 & E1 & T1 & Lb & _).
    cbn [push_rrs]. rewrite E1. cbn [obind].
    destruct (size <? lenN buf + lenN b).
    + exists [], k1, 0, true. split; [reflexivity|discriminate].
    + assert (Hp1 : 0 < lenN (buf ++ b)) by (rewrite lenN_app; lia).
      destruct (IH (buf ++ b) k1 Hp1 T1 Hrs) as (bs & k2 & c & t & E2 & T2).
      rewrite lenN_app in E2. rewrite E2.
      exists (b ++ bs), k2, (c + 1), t. split; [reflexivity|]. intros Ht. rewrite app_assoc. auto.
Qed.

Lemma sect_total size t : forall rs buf kids,
  0 < lenN buf -> (t = false -> Forall (tree_ok buf []) kids) -> forallb wf_rr rs = true ->
  exists bs k c t', sect size t (lenN buf) kids rs = Ok (bs, k, c, t') /\
                    (t' = false -> Forall (tree_ok (buf ++ bs) []) k).
Proof.
  intros rs buf kids Hpos Hk Hwf. unfold sect. destruct t.
  - exists [], kids, 0, true. split; [reflexivity|discriminate].
  - apply push_rrs_total; auto.
Qed.

Lemma encode_total m size : wf_pkt m = true -> 512 <= size -> exists e t, encode_sized_t m size = Ok (e, t).
Proof.
  intros Hwf Hs.
  apply wf_pkt_parts in Hwf as (Wid & Wop & Wrc & Wbs & Wbs2 & Wqn & Wqt & Wqc & Wan & Wns & Wad & Wno & Lan & Lns & Lad & Wed).
  assert (Wad' : forallb wf_rr (additional m ++ opt_rr m) = true).
  { rewrite forallb_app, Wad. simpl. unfold opt_rr. destruct (edns m) as [o|]; [|reflexivity].
    destruct Wed as [Wo Wv]. cbn [forallb]. rewrite andb_true_r. unfold wf_rr. cbn [r_name r_class r_type r_ttl r_data].
    rewrite Wv. fold (opt_ttl (rcode m) (edns_do m)).
    destruct (opt_ttl_facts (rcode m) (edns_do m) Wrc) as (Tt & _).
    unfold w16, w32. cbn [wf_rdata kind_type_ok]. rewrite Wo.
    replace (bufsize m <? 65536) with true by (symmetry; apply N.ltb_lt; lia).
    replace (opt_ttl (rcode m) (edns_do m) <? 4294967296) with true by (symmetry; apply N.ltb_lt; lia).
    reflexivity. }
  set (hdr := repeatN 0 12).
  assert (Hh : lenN hdr = 12) by reflexivity.
  assert (Hp0 : 0 < lenN hdr) by (rewrite Hh; lia).
  destruct (get_name_written hdr [] (qname m) Hp0 (Forall_nil _) Wqn) as (qb & k0 & Eq & T0 & _ & _ & _).
  rewrite Hh in Eq.
  set (qtail := be16 (qtype m) ++ be16 (qclass m)).
  assert (Hp1 : 0 < lenN (hdr ++ qb ++ qtail)) by (rewrite lenN_app; lia).
  assert (T0' : Forall (tree_ok (hdr ++ qb ++ qtail) []) k0).
  { rewrite app_assoc. now apply forall_tree_ok_app. }
  assert (Hl1 : lenN (hdr ++ qb ++ qtail) = 12 + lenN (qb ++ qtail)) by (rewrite lenN_app, Hh; reflexivity).
  destruct (push_rrs_total size (answer m) _ k0 Hp1 T0' Wan) as (ab & k1 & ac & t1 & Ea & T1).
  assert (Hp2 : 0 < lenN ((hdr ++ qb ++ qtail) ++ ab)) by (rewrite lenN_app; lia).
  destruct (sect_total size t1 (nameserver m) _ k1 Hp2 T1 Wns) as (nb & k2 & nc & t2 & En & T2).
  assert (Hp3 : 0 < lenN (((hdr ++ qb ++ qtail) ++ ab) ++ nb)) by (rewrite lenN_app; lia).
  destruct (sect_total size t2 (additional m ++ opt_rr m) _ k2 Hp3 T2 Wad') as (db & k3 & dc & t3 & Ed & _).
  remember (hdr ++ qb ++ qtail) as X eqn:EX.
  repeat rewrite lenN_app in En. repeat rewrite lenN_app in Ed. rewrite Hl1 in Ea, En, Ed.
  eexists. exists t3. unfold qtail in *.
  eapply encode_sized_t_build with (k0 := k0) (k1 := k1) (t1 := t1) (k2 := k2) (t2 := t2) (k3 := k3); eauto; try lia.
Qed.

(* Bit-level facts shared by several models. *)
From Erbium Require Import Lib.Base.

Lemma land_pow2_eq0 (f n : N) : (N.land f (2 ^ n) =? 0) = negb (N.testbit f n).
Proof.
  destruct (N.testbit f n) eqn:Hb; cbn [negb].
  - apply N.eqb_neq. intro H0.
    assert (Ht : N.testbit (N.land f (2 ^ n)) n = true).
    { rewrite N.land_spec, Hb, N.pow2_bits_true. reflexivity. }
    rewrite H0, N.bits_0 in Ht. discriminate.
  - apply N.eqb_eq. apply N.bits_inj_0. intro m.
    rewrite N.land_spec. destruct (N.eq_dec n m) as [->|Hne].
    + rewrite Hb. reflexivity.
    + rewrite (N.pow2_bits_false n m Hne). apply andb_false_r.
Qed.

(* The defects F13-F16 as refutations of totality for the unrepaired fragments,
   and the repaired fragments agree with them wherever those did not panic. *)
From Erbium Require Import Lib.Base Model.Lldp Model.DhcpOptVal Model.C05LOrig.

Lemma to_array_orig_refuted : exists mac k, to_array_orig mac = Panic k.
Proof. exists [], IndexOOB. reflexivity. Qed.
Lemma subnet_new_orig_refuted : exists addr plen k, subnet_new_orig addr plen = Panic k.
Proof. exists 0, 64, Overflow. reflexivity. Qed.
Lemma frame_payload_orig_refuted : exists frame k, frame_payload_orig frame = Panic k.
Proof. exists [], IndexOOB. reflexivity. Qed.
Lemma mgmt_from_wire_orig_refuted : exists p k, mgmt_from_wire_orig p = Panic k.
Proof. exists [0; 1], Overflow. reflexivity. Qed.

(* the repairs change nothing else *)
Lemma to_array_conservative : forall mac r, to_array_orig mac = Ok r -> to_array mac = Ok r.
Proof. intros mac r. unfold to_array_orig, to_array. destruct (6 <=? lenN mac); [auto | discriminate]. Qed.

Lemma frame_payload_conservative : forall f p, frame_payload_orig f = Ok p -> frame_payload f = Some p.
Proof.
  intros f p. unfold frame_payload_orig, frame_payload. destruct (14 <=? lenN f); [|discriminate].
  intros H; inversion H; reflexivity.
Qed.

Lemma mgmt_conservative : forall p, (forall k, mgmt_from_wire_orig p <> Panic k) ->
  mgmt_from_wire p = mgmt_from_wire_orig p.
Proof.
  intros p H. unfold mgmt_from_wire, mgmt_from_wire_orig in *.
  destruct (b_u8 p) as [[l r]| |]; simpl in *; try reflexivity.
  unfold checked_sub, sub_chk in *. destruct (1 <=? l); simpl in *; [reflexivity|].
  exfalso. apply (H Overflow). reflexivity.
Qed.

Lemma subnet_new_conservative : forall addr plen, plen <= 32 -> subnet_new addr plen = subnet_new_orig addr plen.
Proof.
  intros addr plen H. unfold subnet_new, subnet_new_orig.
  assert (E : 32 <? plen = false) by (apply N.ltb_ge; exact H). rewrite E. reflexivity.
Qed.

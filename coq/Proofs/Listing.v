(* The rendered lease listing parses, with the RFC 8259 parser of Model/Json.v,
   to exactly the rows it was rendered from. *)
From Coq Require Import String Ascii Permutation Sorted.
From Erbium Require Import Lib.Base Model.Json Model.Http Model.EntryC20 Proofs.Http.
Open Scope N_scope.

(* ---- the spec's notation coincides with the renderer's ---------------------- *)
Lemma spec_dec_aux_eq f n acc :
  spec_dec_aux f n acc = map (fun d => 48 + d) (rev (digits_rev f n)) ++ acc.
Proof.
  revert n acc. induction f as [|f IH]; intros n acc; [reflexivity|]. cbn [spec_dec_aux digits_rev].
  destruct (n <? 10); [reflexivity|]. rewrite IH. cbn [rev]. rewrite map_app, <- app_assoc. reflexivity.
Qed.
Lemma spec_dec_eq n : spec_dec n = dec n.
Proof. unfold spec_dec, dec. rewrite spec_dec_aux_eq, app_nil_r. reflexivity. Qed.
Lemma spec_ip_text_eq ip : spec_ip_text ip = ip_text ip.
Proof. unfold spec_ip_text, ip_text. rewrite !spec_dec_eq. reflexivity. Qed.

Lemma join_cons2 (sep x y : list N) l : join sep (x :: y :: l) = x ++ sep ++ join sep (y :: l).
Proof. reflexivity. Qed.
Lemma spec_cid_cons2 b b' r :
  spec_cid_text (b :: b' :: r) = spec_hexdigit (b / 16) :: spec_hexdigit (b mod 16) :: 58 :: spec_cid_text (b' :: r).
Proof. reflexivity. Qed.
Lemma spec_cid_text_eq cid : spec_cid_text cid = cid_text cid.
Proof.
  unfold cid_text. induction cid as [|b l IH]; [reflexivity|]. destruct l as [|b' r]; [reflexivity|].
  rewrite spec_cid_cons2, IH. cbn [map]. rewrite join_cons2. reflexivity.
Qed.

(* ---- decimal numbers --------------------------------------------------------- *)
Definition dval (D : list N) : N := fold_right (fun d acc => acc * 10 + d) 0 D.

Lemma digits_rev_value f n : n < 2 ^ N.of_nat f -> dval (digits_rev f n) = n.
Proof.
  revert n. induction f as [|f IH]; intros n H.
  - cbn in H. cbn. lia.
  - cbn [digits_rev]. destruct (N.ltb_spec n 10).
    + cbn. lia.
    + cbn [dval fold_right]. fold (dval (digits_rev f (n / 10))). rewrite IH.
      * pose proof (N.div_mod n 10). lia.
      * apply N.div_lt_upper_bound; [lia|]. rewrite Nat2N.inj_succ, N.pow_succ_r' in H. lia.
Qed.

Lemma digits_rev_lt10 f n : Forall (fun d => d < 10) (digits_rev f n).
Proof.
  revert n. induction f as [|f IH]; intro n; [constructor|]. cbn [digits_rev].
  destruct (N.ltb_spec n 10); [repeat constructor; assumption|].
  constructor; [apply N.mod_lt; lia|apply IH].
Qed.

Lemma digits_rev_last f n : 0 < n -> n < 2 ^ N.of_nat f ->
  exists D d, digits_rev f n = D ++ [d] /\ 0 < d.
Proof.
  revert n. induction f as [|f IH]; intros n Hp H.
  - cbn in H. lia.
  - cbn [digits_rev]. destruct (N.ltb_spec n 10).
    + exists [], n. auto.
    + destruct (IH (n / 10)) as [D [d [E Hd]]].
      * apply N.div_str_pos. lia.
      * apply N.div_lt_upper_bound; [lia|]. rewrite Nat2N.inj_succ, N.pow_succ_r' in H. lia.
      * exists (n mod 10 :: D), d. rewrite E. auto.
Qed.

Lemma fuel_ok n : n < 2 ^ N.of_nat (S (N.to_nat (N.log2 n))).
Proof.
  rewrite Nat2N.inj_succ, N2Nat.id. destruct (N.eq_dec n 0) as [->|H]; [reflexivity|].
  apply N.log2_spec. lia.
Qed.

Lemma digits_value_map L a :
  fold_left (fun acc c => acc * 10 + (c - 48)) (map (fun d => 48 + d) L) a = fold_left (fun acc d => acc * 10 + d) L a.
Proof. revert a. induction L as [|x L IH]; intro a; [reflexivity|]. cbn [map fold_left]. rewrite IH. f_equal. lia. Qed.

Lemma fold_left_rev_dval D : fold_left (fun acc d => acc * 10 + d) (rev D) 0 = dval D.
Proof.
  unfold dval. rewrite <- (rev_involutive D) at 2. rewrite fold_left_rev_right. reflexivity.
Qed.

Lemma digits_value_dec n : digits_value (dec n) = n.
Proof.
  unfold digits_value, dec. rewrite digits_value_map, fold_left_rev_dval. apply digits_rev_value, fuel_ok.
Qed.

Lemma is_digit_48 d : d < 10 -> is_digit (48 + d) = true.
Proof. intro H. unfold is_digit. apply andb_true_intro. split; apply N.leb_le; lia. Qed.

Lemma dec_digits n : Forall (fun c => is_digit c = true) (dec n).
Proof.
  unfold dec. apply Forall_forall. intros c Hin. apply in_map_iff in Hin. destruct Hin as [d [<- Hin]].
  apply in_rev in Hin. pose proof (digits_rev_lt10 (S (N.to_nat (N.log2 n))) n) as F.
  rewrite Forall_forall in F. apply is_digit_48. apply F. exact Hin.
Qed.

Lemma dec_shape n : dec n = [48] \/ exists c ds, dec n = c :: ds /\ is_digit c = true /\ c <> 48.
Proof.
  destruct (N.eq_dec n 0) as [->|Hn]; [left; reflexivity|]. right.
  destruct (digits_rev_last (S (N.to_nat (N.log2 n))) n) as [D [d [E Hd]]]; [lia|apply fuel_ok|].
  unfold dec. rewrite E, rev_app_distr. cbn [rev app map].
  exists (48 + d), (map (fun d0 => 48 + d0) (rev D)). split; [reflexivity|]. split; [|lia].
  apply is_digit_48. pose proof (digits_rev_lt10 (S (N.to_nat (N.log2 n))) n) as F. rewrite E in F.
  apply Forall_app in F. destruct F as [_ F]. apply Forall_inv in F. exact F.
Qed.

Definition num_follow (rest : list N) : Prop :=
  match rest with c :: _ => is_digit c = false /\ c <> 46 /\ c <> 101 /\ c <> 69 | [] => True end.

Lemma take_digits_app ds rest : Forall (fun c => is_digit c = true) ds ->
  match rest with c :: _ => is_digit c = false | [] => True end ->
  take_digits (ds ++ rest) = (ds, rest).
Proof.
  induction ds as [|a ds IH]; intros HF Hr; cbn [app].
  - destruct rest as [|c r]; [reflexivity|]. cbn [take_digits]. rewrite Hr. reflexivity.
  - cbn [take_digits]. rewrite (Forall_inv HF), IH; [reflexivity|exact (Forall_inv_tail HF)|exact Hr].
Qed.

Lemma frac_exp_follow rest : num_follow rest -> parse_frac rest = Some ([], rest) /\ parse_exp rest = Some ([], rest).
Proof.
  destruct rest as [|c r]; [split; reflexivity|]. intros [_ [H1 [H2 H3]]]. cbn [parse_frac parse_exp].
  destruct (N.eqb_spec c 46); [contradiction|]. destruct (N.eqb_spec c 101); [contradiction|].
  destruct (N.eqb_spec c 69); [contradiction|]. split; reflexivity.
Qed.

Lemma parse_number_dec n rest : num_follow rest -> parse_number (dec n ++ rest) = Some (JInt n, rest).
Proof.
  intro Hf. destruct (frac_exp_follow rest Hf) as [Hfr Hex].
  assert (Hnd : match rest with c :: _ => is_digit c = false | [] => True end) by (destruct rest; [exact I|apply Hf]).
  pose proof (digits_value_dec n) as Hv. pose proof (dec_digits n) as Hd.
  destruct (dec_shape n) as [E|[c [ds [E [Hc Hc48]]]]]; rewrite E in *.
  - unfold parse_number. cbn [app parse_int]. cbn. rewrite Hfr, Hex. cbn in Hv. rewrite <- Hv. reflexivity.
  - unfold parse_number. cbn [app].
    assert (H45 : (c =? 45) = false).
    { apply N.eqb_neq. intro. subst c. cbv in Hc. discriminate. }
    rewrite H45. cbn [parse_int]. rewrite (proj2 (N.eqb_neq c 48) Hc48), Hc.
    rewrite (take_digits_app ds rest (Forall_inv_tail Hd) Hnd). rewrite Hfr, Hex. rewrite Hv. reflexivity.
Qed.

Lemma parse_value_digit g c r : is_digit c = true -> parse_value (S g) (c :: r) = parse_number (c :: r).
Proof.
  intro Hd. cbn [parse_value].
  destruct (N.eqb_spec c 34); [subst; cbv in Hd; discriminate|].
  destruct (N.eqb_spec c 91); [subst; cbv in Hd; discriminate|].
  destruct (N.eqb_spec c 123); [subst; cbv in Hd; discriminate|].
  destruct (N.eqb_spec c 116); [subst; cbv in Hd; discriminate|].
  destruct (N.eqb_spec c 102); [subst; cbv in Hd; discriminate|].
  destruct (N.eqb_spec c 110); [subst; cbv in Hd; discriminate|].
  reflexivity.
Qed.

Lemma parse_value_dec g n rest : num_follow rest -> parse_value (S g) (dec n ++ rest) = Some (JInt n, rest).
Proof.
  intro Hf. rewrite <- (parse_number_dec n rest Hf).
  destruct (dec_shape n) as [E|[c [ds [E [Hc _]]]]]; rewrite E; cbn [app]; apply parse_value_digit; [reflexivity|exact Hc].
Qed.

(* ---- strings without anything to escape ---------------------------------------- *)
Definition plain (c : N) : bool := (32 <=? c) && negb (c =? 34) && negb (c =? 92) && (c <=? 1114111).

Lemma parse_chars_plain_str s t : forallb plain s = true -> parse_chars (s ++ 34 :: t) = Some (s, t).
Proof.
  induction s as [|c s IH]; intro H; [reflexivity|]. cbn [forallb] in H. apply andb_prop in H. destruct H as [Hc Hs].
  unfold plain in Hc. repeat (apply andb_prop in Hc; destruct Hc as [Hc ?]).
  cbn [app]. rewrite parse_chars_plain.
  - rewrite (IH Hs). reflexivity.
  - apply N.leb_le. assumption.
  - apply N.eqb_neq. apply negb_true_iff. assumption.
  - apply N.eqb_neq. apply negb_true_iff. assumption.
  - apply N.leb_le. assumption.
Qed.

Lemma plain_digit c : is_digit c = true -> plain c = true.
Proof.
  unfold is_digit, plain. intro H. apply andb_prop in H. destruct H as [H1 H2]. apply N.leb_le in H1, H2.
  repeat (apply andb_true_intro; split); try (apply N.leb_le; lia); apply negb_true_iff, N.eqb_neq; lia.
Qed.

Lemma plain_hexdigit d : d < 16 -> plain (hexdigit d) = true.
Proof.
  intro H. unfold hexdigit, plain. destruct (N.ltb_spec d 10);
    repeat (apply andb_true_intro; split); try (apply N.leb_le; lia); apply negb_true_iff, N.eqb_neq; lia.
Qed.

Lemma forallb_app {A} (f : A -> bool) l1 l2 : forallb f (l1 ++ l2) = forallb f l1 && forallb f l2.
Proof. induction l1 as [|x l1 IH]; [reflexivity|]. cbn. rewrite IH. apply andb_assoc. Qed.

Lemma plain_dec n : forallb plain (dec n) = true.
Proof.
  apply forallb_forall. intros c Hin. apply plain_digit. pose proof (dec_digits n) as F.
  rewrite Forall_forall in F. apply F. exact Hin.
Qed.

Lemma plain_ip_text ip : forallb plain (ip_text ip) = true.
Proof. unfold ip_text. rewrite !forallb_app, !plain_dec. reflexivity. Qed.

Lemma plain_cid_text cid : forallb (fun b => b <? 256) cid = true -> forallb plain (cid_text cid) = true.
Proof.
  unfold cid_text. induction cid as [|b l IH]; intro H; [reflexivity|].
  cbn [forallb] in H. apply andb_prop in H. destruct H as [Hb Hl]. apply N.ltb_lt in Hb.
  assert (Hh : forallb plain (hex2 b) = true).
  { unfold hex2. cbn [forallb]. rewrite !plain_hexdigit; [reflexivity| |].
    - apply N.mod_lt. discriminate.
    - apply N.div_lt_upper_bound; [discriminate|lia]. }
  destruct l as [|b' r]; [cbn [map join]; exact Hh|].
  cbn [map]. rewrite join_cons2. rewrite !forallb_app, Hh. cbn [forallb andb]. apply (IH Hl).
Qed.

(* ---- one row: an object of four or five members ---------------------------------- *)
Definition row_json (l : lease) : json :=
  JObj ([ (K_IP, JStr (ip_text (l_ip l))); (K_CLIENT_ID, JStr (cid_text (l_cid l)));
          (K_START, JInt (l_start l)); (K_EXPIRE, JInt (l_expire l)) ]
        ++ match l_host l with Some h => [(K_HOSTNAME, JStr h)] | None => [] end).

(* the text of a row after its leading " {" *)
Definition row_tail (l : lease) : list N :=
  str " ""ip"": """ ++ ip_text (l_ip l) ++ str """, ""client_id"": """ ++ cid_text (l_cid l)
  ++ str """, ""start"": " ++ dec (l_start l) ++ str ", ""expire"": " ++ dec (l_expire l)
  ++ match l_host l with Some h => str ", ""host-name"": " ++ json_string h | None => [] end
  ++ str " }".

Lemma render_row_eq l : render_row l = 32 :: 123 :: row_tail l.
Proof. reflexivity. Qed.

Lemma num_follow_comma r : num_follow (44 :: r).
Proof. cbv. repeat split; discriminate. Qed.
Lemma num_follow_space r : num_follow (32 :: r).
Proof. cbv. repeat split; discriminate. Qed.


Lemma row_tail_eq l :
  row_tail l =
  32 :: 34 :: K_IP ++ 34 :: 58 :: 32 :: 34 :: ip_text (l_ip l) ++ 34 :: 44 :: 32 :: 34 ::
  K_CLIENT_ID ++ 34 :: 58 :: 32 :: 34 :: cid_text (l_cid l) ++ 34 :: 44 :: 32 :: 34 ::
  K_START ++ 34 :: 58 :: 32 :: dec (l_start l) ++ 44 :: 32 :: 34 ::
  K_EXPIRE ++ 34 :: 58 :: 32 :: dec (l_expire l) ++
  match l_host l with
  | Some h => 44 :: 32 :: 34 :: K_HOSTNAME ++ 34 :: 58 :: 32 :: 34 :: escape h ++ 34 :: 32 :: 125 :: []
  | None => 32 :: 125 :: []
  end.
Proof.
  unfold row_tail, json_string.
  change (str " ""ip"": """) with (32 :: 34 :: K_IP ++ [34; 58; 32; 34]).
  change (str """, ""client_id"": """) with (34 :: 44 :: 32 :: 34 :: K_CLIENT_ID ++ [34; 58; 32; 34]).
  change (str """, ""start"": ") with (34 :: 44 :: 32 :: 34 :: K_START ++ [34; 58; 32]).
  change (str ", ""expire"": ") with (44 :: 32 :: 34 :: K_EXPIRE ++ [34; 58; 32]).
  change (str ", ""host-name"": ") with (44 :: 32 :: 34 :: K_HOSTNAME ++ [34; 58; 32]).
  change (str " }") with [32; 125].
  destruct (l_host l); repeat (rewrite <- ?app_assoc; cbn [app]); reflexivity.
Qed.

Lemma skip_ws_dec n r : skip_ws (dec n ++ r) = dec n ++ r.
Proof.
  destruct (dec_shape n) as [E|[c [ds [E [Hc _]]]]]; rewrite E; [reflexivity|]. cbn [app skip_ws].
  assert (H : is_ws c = false).
  { unfold is_digit in Hc. apply andb_prop in Hc. destruct Hc as [H1 H2]. apply N.leb_le in H1.
    unfold is_ws. repeat (apply orb_false_intro); apply N.eqb_neq; lia. }
  rewrite H. reflexivity.
Qed.

Lemma members_cons g ktext V v more l rest' :
  forallb plain ktext = true ->
  skip_ws V = V ->
  parse_value g V = Some (v, 44 :: 32 :: 34 :: more) ->
  parse_members g (34 :: more) = Some (l, rest') ->
  parse_members (S g) (34 :: ktext ++ 34 :: 58 :: 32 :: V) = Some ((ktext, v) :: l, rest').
Proof.
  intros Hk Hs Hv Hm. cbn [parse_members]. rewrite N.eqb_refl, (parse_chars_plain_str ktext _ Hk).
  cbn [skip_ws is_ws N.eqb Pos.eqb orb]. rewrite Hs, Hv.
  cbn [skip_ws is_ws N.eqb Pos.eqb orb]. rewrite Hm. reflexivity.
Qed.

Lemma members_last g ktext V v rest :
  forallb plain ktext = true ->
  skip_ws V = V ->
  parse_value g V = Some (v, 32 :: 125 :: rest) ->
  parse_members (S g) (34 :: ktext ++ 34 :: 58 :: 32 :: V) = Some ([(ktext, v)], rest).
Proof.
  intros Hk Hs Hv. cbn [parse_members]. rewrite N.eqb_refl, (parse_chars_plain_str ktext _ Hk).
  cbn [skip_ws is_ws N.eqb Pos.eqb orb]. rewrite Hs, Hv.
  cbn [skip_ws is_ws N.eqb Pos.eqb orb]. reflexivity.
Qed.

Lemma parse_value_string g s t : wf_str s = true ->
  parse_value (S g) (34 :: escape s ++ 34 :: t) = Some (JStr s, t).
Proof. intro H. cbn [parse_value]. rewrite N.eqb_refl, (parse_chars_escape s t H). reflexivity. Qed.

Lemma parse_value_plain g s t : forallb plain s = true ->
  parse_value (S g) (34 :: s ++ 34 :: t) = Some (JStr s, t).
Proof. intro H. cbn [parse_value]. rewrite N.eqb_refl, (parse_chars_plain_str s t H). reflexivity. Qed.

Lemma parse_obj g m items rest0 :
  parse_members g (34 :: m) = Some (items, rest0) ->
  parse_value (S g) (123 :: 32 :: 34 :: m) = Some (JObj items, rest0).
Proof.
  intro H. cbn [parse_value skip_ws is_ws N.eqb Pos.eqb orb]. rewrite H. reflexivity.
Qed.

Lemma parse_row g l rest :
  wf_lease l = true ->
  parse_value (S (S (S (S (S (S (S g))))))) (123 :: row_tail l ++ rest) = Some (row_json l, rest).
Proof.
  intro Hw. unfold wf_lease in Hw. repeat (apply andb_prop in Hw; destruct Hw as [Hw ?]).
  rewrite row_tail_eq. unfold row_json. repeat (rewrite <- ?app_assoc; cbn [app]).
  apply parse_obj.
  eapply members_cons; [reflexivity|reflexivity| |].
  { apply parse_value_plain. apply plain_ip_text. }
  eapply members_cons; [reflexivity|reflexivity| |].
  { apply parse_value_plain. apply plain_cid_text. assumption. }
  eapply members_cons; [reflexivity|apply skip_ws_dec| |].
  { apply parse_value_dec. apply num_follow_comma. }
  destruct (l_host l) as [h|]; repeat (rewrite <- ?app_assoc; cbn [app]).
  - eapply members_cons; [reflexivity|apply skip_ws_dec| |].
    { apply parse_value_dec. apply num_follow_comma. }
    apply members_last; [reflexivity|reflexivity|].
    apply parse_value_string. assumption.
  - apply members_last; [reflexivity|apply skip_ws_dec|].
    apply parse_value_dec. apply num_follow_space.
Qed.

(* ---- the array of rows ------------------------------------------------------------- *)
(* the rows joined by ",\n", after the first row's " {" *)
Fixpoint rt (r : lease) (rs : list lease) : list N :=
  match rs with
  | [] => row_tail r
  | r' :: rs' => row_tail r ++ 44 :: 10 :: 32 :: 123 :: rt r' rs'
  end.

Lemma rows_text_eq r rs : join (44 :: NL) (map render_row (r :: rs)) = 32 :: 123 :: rt r rs.
Proof.
  revert r. induction rs as [|r' rs IH]; intro r; [reflexivity|].
  cbn [map]. rewrite join_cons2. cbn [map] in IH. rewrite IH. rewrite render_row_eq.
  cbn [rt NL app]. reflexivity.
Qed.

Lemma parse_rows rs : forall r g rest,
  forallb wf_lease (r :: rs) = true ->
  parse_elems (S (7 + (length rs + g))) (123 :: rt r rs ++ 10 :: 93 :: rest) = Some (map row_json (r :: rs), rest).
Proof.
  induction rs as [|r' rs IH]; intros r g rest Hw; cbn [forallb] in Hw; apply andb_prop in Hw; destruct Hw as [Hr Hw].
  - cbn [rt length Nat.add parse_elems]. rewrite (parse_row g r (10 :: 93 :: rest) Hr).
    cbn [skip_ws is_ws N.eqb Pos.eqb orb]. reflexivity.
  - cbn [rt]. rewrite <- app_assoc. cbn [app].
    change (S (7 + (length (r' :: rs) + g))) with (S (S (7 + (length rs + g)))).
    remember (S (7 + (length rs + g))) as F eqn:HF.
    assert (Hpr : forall X, parse_value F (123 :: row_tail r ++ X) = Some (row_json r, X)).
    { intro X. rewrite HF. exact (parse_row (S (length rs + g)) r X Hr). }
    cbn [parse_elems]. rewrite Hpr.
    cbn [skip_ws is_ws N.eqb Pos.eqb orb].
    rewrite HF, (IH r' g rest Hw). reflexivity.
Qed.

Lemma rt_length r rs : (length rs <= length (rt r rs))%nat.
Proof.
  revert r. induction rs as [|r' rs IH]; intro r; [apply Nat.le_0_l|].
  cbn [rt length]. rewrite app_length. cbn [length]. specialize (IH r'). lia.
Qed.

(* ---- entries ------------------------------------------------------------------------ *)
Lemma entry_of_row l : entry_of_json (row_json l) = Some (spec_entry l).
Proof.
  unfold row_json, spec_entry. rewrite spec_ip_text_eq, spec_cid_text_eq.
  destruct (l_host l); reflexivity.
Qed.

Lemma entries_rows rows : all_some (map entry_of_json (map row_json rows)) = Some (map spec_entry rows).
Proof.
  induction rows as [|l rows IH]; [reflexivity|]. cbn [map all_some]. rewrite entry_of_row, IH. reflexivity.
Qed.

(* ---- the whole listing ----------------------------------------------------------------- *)
Lemma render_eq rows :
  render rows = 123 :: 32 :: 34 :: K_LEASES ++ 34 :: 32 :: 58 :: 32 :: 91 :: 10 ::
                join (44 :: NL) (map render_row rows) ++ 10 :: 93 :: 125 :: 10 :: [].
Proof.
  unfold render. change (str "{ ""leases"" : [") with (123 :: 32 :: 34 :: K_LEASES ++ [34; 32; 58; 32; 91]).
  change (str "]}") with [93; 125]. unfold NL. repeat (rewrite <- ?app_assoc; cbn [app]). reflexivity.
Qed.

Lemma listing_is_json rows :
  forallb wf_lease rows = true ->
  exists j, json_parse (render rows) = Some j /\ entries j = Some (map spec_entry rows).
Proof.
  intro Hw. exists (JObj [(K_LEASES, JArr (map row_json rows))]). split.
  - destruct rows as [|r rs]; [reflexivity|].
    unfold json_parse.
    assert (Hf : exists g, (2 * length (render (r :: rs)) + 2 = S (S (S (S (7 + (length rs + g))))))%nat).
    { rewrite render_eq, rows_text_eq. cbn [length app K_LEASES]. rewrite app_length.
      pose proof (rt_length r rs). exists (2 * length (render (r :: rs)) + 2 - 11 - length rs)%nat.
      rewrite render_eq, rows_text_eq. cbn [length app K_LEASES]. rewrite app_length. cbn [length]. lia. }
    destruct Hf as [g Hg]. rewrite Hg. rewrite render_eq, rows_text_eq.
    cbn [skip_ws is_ws N.eqb Pos.eqb orb].
    cbn [parse_value skip_ws is_ws N.eqb Pos.eqb orb].
    cbn [parse_members K_LEASES app parse_chars N.eqb Pos.eqb N.ltb N.compare Pos.compare Pos.compare_cont orb cons_fst skip_ws is_ws].
    cbn [parse_value skip_ws is_ws N.eqb Pos.eqb orb].
    rewrite (parse_rows rs r g (125 :: 10 :: []) Hw). reflexivity.
  - cbn. rewrite entries_rows. reflexivity.
Qed.


(* ---- the served listing: sorted by address, one entry per stored lease ---------------------- *)
Lemma insert_by_ip_perm x l : Permutation (insert_by_ip x l) (x :: l).
Proof.
  induction l as [|y r IH]; cbn [insert_by_ip]; [apply Permutation_refl|].
  destruct (l_ip x <=? l_ip y); [apply Permutation_refl|].
  eapply Permutation_trans; [apply perm_skip, IH | apply perm_swap].
Qed.

Lemma sort_by_ip_perm l : Permutation (sort_by_ip l) l.
Proof.
  induction l as [|x r IH]; cbn [sort_by_ip fold_right]; [apply Permutation_refl|].
  eapply Permutation_trans; [apply insert_by_ip_perm | apply perm_skip, IH].
Qed.

Lemma forallb_perm {A} (f : A -> bool) l l' : Permutation l l' -> forallb f l = forallb f l'.
Proof.
  induction 1 as [|x l l' _ IH|x y l|l l' l'' _ IH1 _ IH2]; cbn [forallb].
  - reflexivity.
  - now rewrite IH.
  - destruct (f x), (f y); reflexivity.
  - now rewrite IH1.
Qed.

Definition ip_le (a b : lease) : Prop := l_ip a <= l_ip b.

Lemma insert_by_ip_sorted x l : Sorted ip_le l -> Sorted ip_le (insert_by_ip x l).
Proof.
  induction 1 as [|y r Hs IH Hh]; cbn [insert_by_ip]; [repeat constructor|].
  destruct (l_ip x <=? l_ip y) eqn:E.
  - apply N.leb_le in E. constructor; [constructor; assumption|]. constructor. exact E.
  - apply N.leb_gt in E. constructor; [exact IH|].
    destruct r as [|z r']; cbn [insert_by_ip].
    + constructor. unfold ip_le. apply N.lt_le_incl, E.
    + destruct (l_ip x <=? l_ip z) eqn:E2; constructor; unfold ip_le.
      * apply N.lt_le_incl, E.
      * inversion Hh; subst. assumption.
Qed.

Lemma sort_by_ip_sorted l : Sorted ip_le (sort_by_ip l).
Proof.
  induction l as [|x r IH]; cbn [sort_by_ip fold_right]; [constructor|].
  apply insert_by_ip_sorted, IH.
Qed.

Lemma served_listing rows :
  forallb wf_lease rows = true ->
  exists j es, json_parse (serve_listing rows) = Some j /\ entries j = Some es /\
               Permutation es (map spec_entry rows) /\
               es = map spec_entry (sort_by_ip rows) /\ Sorted ip_le (sort_by_ip rows).
Proof.
  intros Hwf.
  assert (Hwf' : forallb wf_lease (sort_by_ip rows) = true)
    by (rewrite (forallb_perm wf_lease _ _ (sort_by_ip_perm rows)); exact Hwf).
  destruct (listing_is_json _ Hwf') as [j [Hp He]].
  exists j, (map spec_entry (sort_by_ip rows)). repeat split.
  - exact Hp.
  - exact He.
  - apply Permutation_map, sort_by_ip_perm.
  - apply sort_by_ip_sorted.
Qed.

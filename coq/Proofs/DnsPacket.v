(* Packet level (C14): sections, flag and OPT arithmetic, and decode . encode = id on
   well-formed messages when nothing was dropped. *)
From Erbium Require Import Lib.Base Model.DnsName Model.DnsCodec Model.DnsStrict Proofs.DnsName Proofs.DnsCodec Proofs.DnsRecord.

(* ---- sections ------------------------------------------------------------------- *)
Lemma get_rrs_cons buf trunc k (l : list N) off : l <> [] ->
  get_rrs buf trunc (S k) (l, off) =
    (do (r, c1) <- get_rr buf (l, off); do (rs, c2) <- get_rrs buf trunc k c1; Ok (r :: rs, c2)).
Proof. destruct l; [congruence|reflexivity]. Qed.

Lemma rrs_written : forall rs buf kids,
  0 < lenN buf -> Forall (tree_ok buf []) kids -> forallb wf_rr rs = true ->
  exists bs kids', enc_rrs (lenN buf) kids rs = Ok (bs, kids') /\
    Forall (tree_ok (buf ++ bs) []) kids' /\
    forall post trunc,
      get_rrs (buf ++ bs ++ post) trunc (length rs) (bs ++ post, lenN buf) = Ok (rs, (post, lenN buf + lenN bs)).
Proof.
  induction rs as [|r rs IH]; intros buf kids Hpos Hk Hwf.
  - exists [], kids. split; [reflexivity|]. rewrite app_nil_r. split; auto.
    intros post trunc. simpl. rewrite (@lenN_nil N), N.add_0_r. reflexivity.
  - simpl in Hwf. apply andb_true_iff in Hwf as [Hr Hrs].
    destruct (rr_written buf kids r Hpos Hk Hr) as (b & k1 & E1 & T1 & Lb & R1).
    assert (Hp1 : 0 < lenN (buf ++ b)) by (rewrite lenN_app; lia).
    destruct (IH (buf ++ b) k1 Hp1 T1 Hrs) as (bs & k2 & E2 & T2 & R2).
    rewrite lenN_app in E2.
    exists (b ++ bs), k2. split; [|split].
    + simpl. rewrite E1. cbn [obind]. rewrite E2. reflexivity.
    + rewrite app_assoc. exact T2.
    + intros post trunc. cbn [length].
      assert (Hne : (b ++ bs) ++ post <> []).
      { destruct b; [rewrite (@lenN_nil N) in Lb; lia|discriminate]. }
      rewrite (get_rrs_cons _ _ _ _ _ Hne).
      specialize (R1 (bs ++ post)). rewrite <- !app_assoc. rewrite R1. cbn [obind].
      specialize (R2 post trunc). rewrite <- !app_assoc in R2. rewrite lenN_app in R2. rewrite R2. cbn [obind].
      rewrite lenN_app. replace (lenN buf + lenN b + lenN bs) with (lenN buf + (lenN b + lenN bs)) by lia.
      reflexivity.
Qed.

(* ---- bounded checks by computation ---------------------------------------------- *)
Lemma forall_below (P : N -> bool) (n : nat) :
  forallb P (map N.of_nat (seq 0 n)) = true -> forall x, x < N.of_nat n -> P x = true.
Proof.
  intros H x Hx. rewrite forallb_forall in H. apply H.
  apply in_map_iff. exists (N.to_nat x). split; [lia|]. apply in_seq. lia.
Qed.

Definition flag1_of (rd_ tc_ aa_ qr_ : bool) (op : N) : N :=
  N.lor (N.lor (N.lor (N.lor (bit rd_ 1) (bit tc_ 2)) (bit aa_ 4)) (bit qr_ 128)) ((op * 8) mod 256).
Definition flag2_of (cd_ ad_ ra_ : bool) (rc : N) : N :=
  N.lor (N.lor (N.lor (bit cd_ 32) (bit ad_ 64)) (bit ra_ 128)) (rc mod 16).

Definition bools := [true; false].

Lemma flag1_facts rd_ tc_ aa_ qr_ op : op < 16 ->
  let f := flag1_of rd_ tc_ aa_ qr_ op in
  N.testbit f 0 = rd_ /\ N.testbit f 1 = tc_ /\ N.testbit f 2 = aa_ /\ N.testbit f 7 = qr_ /\
  (f / 8) mod 16 = op /\ f < 256.
Proof.
  intros Hop.
  assert (H : forallb (fun op => forallb (fun a => forallb (fun b => forallb (fun c => forallb (fun d =>
             let f := flag1_of a b c d op in
             Bool.eqb (N.testbit f 0) a && Bool.eqb (N.testbit f 1) b && Bool.eqb (N.testbit f 2) c
             && Bool.eqb (N.testbit f 7) d && ((f / 8) mod 16 =? op) && (f <? 256))
             bools) bools) bools) bools) (map N.of_nat (seq 0 16)) = true) by (vm_compute; reflexivity).
  pose proof (forall_below _ _ H op Hop) as H1. cbv beta in H1.
  unfold bools in H1.
  destruct rd_, tc_, aa_, qr_; cbn [forallb] in H1; btrue H1;
    repeat match goal with Hx : Bool.eqb _ _ = true |- _ => apply Bool.eqb_prop in Hx end;
    repeat match goal with Hx : (_ =? _) = true |- _ => apply N.eqb_eq in Hx end;
    repeat match goal with Hx : (_ <? _) = true |- _ => apply N.ltb_lt in Hx end;
    cbv zeta; repeat split; assumption.
Qed.

Lemma flag2_facts cd_ ad_ ra_ rc :
  let f := flag2_of cd_ ad_ ra_ rc in
  N.testbit f 5 = cd_ /\ N.testbit f 6 = ad_ /\ N.testbit f 7 = ra_ /\ f mod 16 = rc mod 16 /\ f < 256.
Proof.
  assert (Hr : rc mod 16 < 16) by (apply N.mod_lt; lia).
  assert (H : forallb (fun r => forallb (fun a => forallb (fun b => forallb (fun c =>
             let f := N.lor (N.lor (N.lor (bit a 32) (bit b 64)) (bit c 128)) r in
             Bool.eqb (N.testbit f 5) a && Bool.eqb (N.testbit f 6) b && Bool.eqb (N.testbit f 7) c
             && (f mod 16 =? r) && (f <? 256))
             bools) bools) bools) (map N.of_nat (seq 0 16)) = true) by (vm_compute; reflexivity).
  pose proof (forall_below _ _ H (rc mod 16) Hr) as H1. cbv beta in H1.
  unfold flag2_of. remember (rc mod 16) as r. unfold bools in H1.
  destruct cd_, ad_, ra_; cbn [forallb] in H1; btrue H1;
    repeat match goal with Hx : Bool.eqb _ _ = true |- _ => apply Bool.eqb_prop in Hx end;
    repeat match goal with Hx : (_ =? _) = true |- _ => apply N.eqb_eq in Hx end;
    repeat match goal with Hx : (_ <? _) = true |- _ => apply N.ltb_lt in Hx end;
    cbv zeta; repeat split; assumption.
Qed.

(* the TTL word of the OPT pseudo-record, version 0 *)
Definition opt_ttl (rc : N) (d : bool) : N :=
  N.lor (N.lor (N.shiftl (N.shiftr rc 4) 24) (N.shiftl 0 16)) (bit d 32768).

Lemma opt_ttl_facts rc d : rc < 4096 ->
  let t := opt_ttl rc d in
  t < 4294967296 /\ (t / 65536) mod 256 = 0 /\ N.testbit t 15 = d /\
  N.lor (rc mod 16) (t / 16777216 * 16) = rc.
Proof.
  intros Hrc.
  assert (H : forallb (fun rc => forallb (fun d =>
             let t := opt_ttl rc d in
             (t <? 4294967296) && ((t / 65536) mod 256 =? 0) && Bool.eqb (N.testbit t 15) d
             && (N.lor (rc mod 16) (t / 16777216 * 16) =? rc)) bools) (map N.of_nat (seq 0 4096)) = true)
    by (vm_compute; reflexivity).
  pose proof (forall_below _ _ H rc Hrc) as H1. cbv beta in H1. unfold bools in H1.
  destruct d; cbn [forallb] in H1; btrue H1;
    repeat match goal with Hx : Bool.eqb _ _ = true |- _ => apply Bool.eqb_prop in Hx end;
    repeat match goal with Hx : (_ =? _) = true |- _ => apply N.eqb_eq in Hx end;
    repeat match goal with Hx : (_ <? _) = true |- _ => apply N.ltb_lt in Hx end;
    cbv zeta; repeat split; assumption.
Qed.

Lemma lor_small_zero r : N.lor r (0 * 16) = r.
Proof. simpl. apply N.lor_0_r. Qed.

(* ---- OPT folding ---------------------------------------------------------------- *)
Lemma no_opt_find (l : list rr) tail :
  existsb (fun r => r_type r =? T_OPT) l = false ->
  find is_opt0 (l ++ tail) = find is_opt0 tail /\
  filter (fun r => negb (r_type r =? T_OPT)) (l ++ tail) = l ++ filter (fun r => negb (r_type r =? T_OPT)) tail.
Proof.
  induction l as [|r l IH]; simpl; intros H; [auto|].
  apply orb_false_iff in H as [H1 H2]. destruct (IH H2) as [I1 I2].
  unfold is_opt0 at 1. rewrite H1. simpl. rewrite I1, I2. auto.
Qed.

(* ---- nothing dropped: the sections are the unlimited encodings ------------------- *)
Lemma to_nat_lenN {A} (l : list A) : N.to_nat (lenN l) = length l.
Proof. unfold lenN. apply Nat2N.id. Qed.

Lemma push_rrs_false size pos k rs bs k' c :
  push_rrs size pos k rs = Ok (bs, k', c, false) -> enc_rrs pos k rs = Ok (bs, k') /\ c = lenN rs.
Proof.
  intros H. destruct (push_rrs_prefix _ _ _ _ _ _ _ _ H) as (_ & (k'' & E & Ek) & Hc & _).
  specialize (Hc eq_refl). rewrite Hc, firstn_all in E. rewrite (Ek eq_refl) in E. split; auto.
  unfold lenN. rewrite <- Hc. lia.
Qed.

Lemma sect_false size t pos k rs bs k' c :
  sect size t pos k rs = Ok (bs, k', c, false) -> t = false /\ enc_rrs pos k rs = Ok (bs, k') /\ c = lenN rs.
Proof.
  unfold sect. destruct t; [discriminate|]. intros H. split; auto. now apply (push_rrs_false size).
Qed.

Lemma get_u8_cons x (r : list N) off : get_u8 (x :: r, off) = Ok (x, (r, off + 1)).
Proof. reflexivity. Qed.

Lemma wf_pkt_parts m : wf_pkt m = true ->
  qid m < 65536 /\ opcode m < 16 /\ rcode m < 4096 /\ bufsize m < 65536 /\ 512 <= bufsize m /\
  wf_name (qname m) = true /\ qtype m < 65536 /\ qclass m < 65536 /\
  forallb wf_rr (answer m) = true /\ forallb wf_rr (nameserver m) = true /\ forallb wf_rr (additional m) = true /\
  existsb (fun r => r_type r =? T_OPT) (additional m) = false /\
  lenN (answer m) < 65536 /\ lenN (nameserver m) < 65536 /\ lenN (additional m ++ opt_rr m) < 65536 /\
  match edns m with
  | Some o => wf_opts o = true /\ edns_ver m = Some 0
  | None => rcode m < 16 /\ bufsize m = 512 /\ edns_do m = false /\ edns_ver m = None
  end.
Proof.
  unfold wf_pkt. intros H. btrue H. wnum.
  repeat match goal with Hx : (_ <? _) = true |- _ => apply N.ltb_lt in Hx end.
  repeat match goal with Hx : (_ <=? _) = true |- _ => apply N.leb_le in Hx end.
  repeat match goal with Hx : negb _ = true |- _ => apply negb_true_iff in Hx end.
  repeat split; try assumption.
  destruct (edns m).
  - btrue H. split; auto. destruct (edns_ver m) as [v|]; simpl in *; try discriminate.
    match goal with Hx : (v =? 0) = true |- _ => apply N.eqb_eq in Hx; subst; reflexivity end.
  - btrue H.
    repeat match goal with Hx : (_ <? _) = true |- _ => apply N.ltb_lt in Hx end.
    repeat match goal with Hx : (_ =? _) = true |- _ => apply N.eqb_eq in Hx end.
    repeat match goal with Hx : negb _ = true |- _ => apply negb_true_iff in Hx end.
    destruct (edns_ver m); try discriminate. repeat split; assumption.
Qed.

(* ---- C14: decode . encode = id on well-formed messages ---------------------------- *)
Lemma decode_encode m size e :
  wf_pkt m = true -> encode_sized_t m size = Ok (e, false) -> decode e = Ok m.
Proof.
  intros Hwf H.
  apply encode_sized_t_inv in H as (_ & _ & qb & k0 & ab & k1 & ac & t1 & nb & k2 & nc & t2 & db & k3 & dc & Eq & H).
  cbv zeta in H. destruct H as (Ea & En & Ed & ->).
  apply sect_false in Ed as (-> & Ad & ->). apply sect_false in En as (-> & An & ->).
  apply push_rrs_false in Ea as (Aa & ->).
  apply wf_pkt_parts in Hwf as (Wid & Wop & Wrc & Wbs & Wbs2 & Wqn & Wqt & Wqc & Wan & Wns & Wad & Wno & Lan & Lns & Lad & Wed).
  set (hdr := be16 (qid m) ++ [flag1 m false; flag2 m] ++ be16 1 ++ be16 (lenN (answer m)) ++
              be16 (lenN (nameserver m)) ++ be16 (lenN (additional m ++ opt_rr m))).
  assert (Hh : lenN hdr = 12) by reflexivity.
  assert (Hp0 : 0 < lenN hdr) by (rewrite Hh; lia).
  destruct (get_name_written hdr [] (qname m) Hp0 (Forall_nil _) Wqn) as (qb' & k0' & Eq' & T0 & _ & _ & Rq).
  rewrite Hh, Eq in Eq'. inversion Eq'; subst qb' k0'. clear Eq'.
  set (qtail := be16 (qtype m) ++ be16 (qclass m)).
  (* sections *)
  assert (Hp1 : 0 < lenN (hdr ++ qb ++ qtail)) by (rewrite lenN_app; lia).
  assert (T0' : Forall (tree_ok (hdr ++ qb ++ qtail) []) k0).
  { rewrite app_assoc. now apply forall_tree_ok_app. }
  assert (Hl1 : lenN (hdr ++ qb ++ qtail) = 12 + lenN (qb ++ qtail)) by (rewrite lenN_app, Hh; reflexivity).
  destruct (rrs_written (answer m) _ k0 Hp1 T0' Wan) as (ab' & k1' & Ea' & T1 & Ra).
  rewrite Hl1 in Ea'. unfold qtail in Ea'. rewrite Aa in Ea'. inversion Ea'; subst ab' k1'. clear Ea'.
  assert (Hp2 : 0 < lenN ((hdr ++ qb ++ qtail) ++ ab)) by (rewrite lenN_app; lia).
  destruct (rrs_written (nameserver m) _ k1 Hp2 T1 Wns) as (nb' & k2' & En' & T2 & Rn).
  rewrite lenN_app, Hl1 in En'. unfold qtail in En'. rewrite An in En'. inversion En'; subst nb' k2'. clear En'.
  assert (Wad' : forallb wf_rr (additional m ++ opt_rr m) = true).
  { rewrite forallb_app, Wad. simpl. unfold opt_rr. destruct (edns m) as [o|]; [|reflexivity].
    destruct Wed as [Wo Wv]. cbn [forallb]. rewrite andb_true_r. unfold wf_rr. cbn [r_name r_class r_type r_ttl r_data].
    rewrite Wv. fold (opt_ttl (rcode m) (edns_do m)).
    destruct (opt_ttl_facts (rcode m) (edns_do m) Wrc) as (Tt & _).
    unfold w16, w32. cbn [wf_rdata kind_type_ok]. rewrite Wo.
    replace (bufsize m <? 65536) with true by (symmetry; apply N.ltb_lt; lia).
    replace (opt_ttl (rcode m) (edns_do m) <? 4294967296) with true by (symmetry; apply N.ltb_lt; lia).
    reflexivity. }
  assert (Hp3 : 0 < lenN (((hdr ++ qb ++ qtail) ++ ab) ++ nb)) by (rewrite lenN_app; lia).
  destruct (rrs_written (additional m ++ opt_rr m) _ k2 Hp3 T2 Wad') as (db' & k3' & Ed' & _ & Rd).
  rewrite !lenN_app in Ed'. rewrite Hh in Ed'. rewrite <- lenN_app in Ed'. unfold qtail in Ed'.
  rewrite Ad in Ed'. inversion Ed'; subst db' k3'. clear Ed'.
  (* the decoder, field by field *)
  specialize (Rq (qtail ++ ab ++ nb ++ db)). destruct Rq as [Rq _]. rewrite Hh in Rq.
  specialize (Ra (nb ++ db) (N.testbit (flag1 m false) 1)). rewrite Hl1 in Ra.
  specialize (Rn db (N.testbit (flag1 m false) 1)). rewrite lenN_app, Hl1 in Rn.
  specialize (Rd [] (N.testbit (flag1 m false) 1)). rewrite !lenN_app in Rd. rewrite Hh in Rd.
  unfold hdr, qtail in *. clear hdr qtail Hh Hp0 Hp1 Hp2 Hp3 Hl1 T0 T0' T1 T2.
  repeat rewrite <- app_assoc in Rq. repeat rewrite <- app_assoc in Ra.
  repeat rewrite <- app_assoc in Rn. repeat rewrite <- app_assoc in Rd. rewrite app_nil_r in Rd.
  repeat rewrite <- app_assoc. cbn [app] in *.
  unfold decode.
  rewrite get_u16_be16 by exact Wid. cbn [obind].
  rewrite get_u8_cons. cbn [obind]. rewrite get_u8_cons. cbn [obind].
  rewrite get_u16_be16 by lia. cbn [obind negb N.eqb Pos.eqb].
  rewrite get_u16_be16 by exact Lan. cbn [obind].
  rewrite get_u16_be16 by exact Lns. cbn [obind].
  rewrite get_u16_be16 by exact Lad. cbn [obind].
  change (0 + 2 + 1 + 1 + 2 + 2 + 2 + 2) with 12.
  rewrite Rq. cbn [obind].
  rewrite get_u16_be16 by exact Wqt. cbn [obind].
  rewrite get_u16_be16 by exact Wqc. cbn [obind].
  rewrite !to_nat_lenN.
  rewrite (lenN_app qb) in Ra, Rn.
  change (lenN (be16 (qtype m) ++ be16 (qclass m))) with 4 in *.
  replace (12 + lenN qb + 2 + 2) with (12 + (lenN qb + 4)) by lia.
  rewrite Ra. cbn [obind]. rewrite Rn. cbn [obind]. rewrite Rd. cbn [obind].
  clear Ra Rn Rd Rq Aa An Ad Eq.
  destruct (no_opt_find (additional m) (opt_rr m) Wno) as [Ff Fl]. rewrite Ff, Fl. clear Ff Fl.
  pose proof (flag1_facts (rd m) (tc m) (aa m) (qr m) (opcode m) Wop) as F1.
  pose proof (flag2_facts (cd m) (ad m) (ra m) (rcode m)) as F2. cbv zeta in F1, F2.
  assert (E1 : flag1 m false = flag1_of (rd m) (tc m) (aa m) (qr m) (opcode m))
    by (unfold flag1, flag1_of; rewrite orb_false_r; reflexivity).
  assert (E2 : flag2 m = flag2_of (cd m) (ad m) (ra m) (rcode m)) by reflexivity.
  rewrite E1, E2. clear E1 E2.
  destruct F1 as (-> & -> & -> & -> & -> & _). destruct F2 as (-> & -> & -> & F2m & _). rewrite F2m.
  f_equal. unfold opt_rr in *. destruct (edns m) as [o|] eqn:Eed.
  - destruct Wed as [Wo Wv]. rewrite Wv. fold (opt_ttl (rcode m) (edns_do m)).
    destruct (opt_ttl_facts (rcode m) (edns_do m) Wrc) as (Tt & Tv & Td & Tr).
    cbn [find]. unfold is_opt0. cbn [r_type r_ttl r_class r_data]. rewrite Tv.
    cbn [N.eqb Pos.eqb T_OPT andb filter negb r_type r_ttl r_class r_data]. rewrite Tr, Td, Tv, app_nil_r.
    rewrite N.max_l by lia.
    destruct m; cbn in *; subst; reflexivity.
  - destruct Wed as (Wr & Wb & Wd & Wv). cbn [find filter]. rewrite app_nil_r, lor_small_zero.
    rewrite N.mod_small by lia.
    destruct m; cbn in *; subst; reflexivity.
Qed.


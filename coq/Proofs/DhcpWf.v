(* A well-formed DHCP message, as encoded on the wire, passes the receive path
   (parse, log_options, to_array) with Ok: the hostile-input theorems are not
   vacuous about valid requests.  Uses the C12 round-trip lemma. *)
From Erbium Require Import Lib.Base Model.DhcpCodec Model.DhcpOptVal Proofs.Total Proofs.DhcpOptVal.
From Erbium Require Proofs.DhcpCodec.

Lemma wf_opts_bytes : forall os, forallb wf_option os = true -> opts_bytes os = true.
Proof.
  induction os as [|o r IH]; intros H; simpl in *; [reflexivity|].
  apply andb_true_iff in H. destruct H as [Ho Hr]. rewrite (IH Hr).
  unfold wf_option in Ho. apply andb_true_iff in Ho. destruct Ho as [_ Hb]. rewrite Hb. reflexivity.
Qed.

Lemma log_opts_not_err : forall os e, log_opts os <> Err e.
Proof.
  induction os as [|[c v] r IH]; intros e; simpl; [discriminate|].
  destruct ((c =? 53) || (c =? 55)); [apply IH|].
  destruct (dhcp_option_decode c v); try discriminate;
    (destruct (log_opts r) as [[n f]| e'|k] eqn:E; simpl; try discriminate;
     exfalso; exact (IH e' eq_refl)).
Qed.

Lemma wf_message_passes : forall m, wf_dhcp m = true ->
  exists n f, dhcp_recv_path (encode m) =
              Ok (n, f, if 6 <=? d_hlen m then Some (takeN 6 (d_chaddr m)) else None).
Proof.
  intros m H. unfold dhcp_recv_path. rewrite (Proofs.DhcpCodec.decode_encode m H). simpl obind.
  assert (Ho : opts_bytes (d_options m) = true).
  { apply wf_opts_bytes. unfold wf_dhcp in H.
    repeat (apply andb_true_iff in H; destruct H as [H ?]). assumption. }
  assert (Hl : d_hlen m = lenN (d_chaddr m)).
  { unfold wf_dhcp in H. repeat (apply andb_true_iff in H; destruct H as [H ?]).
    repeat match goal with X : (_ =? _) = true |- _ => apply N.eqb_eq in X end. assumption. }
  pose proof (good_log_opts _ Ho) as G. unfold log_options_model.
  destruct (log_opts (d_options m)) as [[n f]|e|k] eqn:EL; simpl in G; try contradiction.
  2:{ exfalso. eapply log_opts_not_err. eassumption. }
  exists n, f. simpl. unfold to_array. rewrite <- Hl. destruct (6 <=? d_hlen m); reflexivity.
Qed.

(* What the integer folds of DhcpParse compute: the value of the low-order
   octets (be_decode v mod 2^w) -- in particular they never overflow. *)
From Erbium Require Import Lib.Base Model.DhcpCodec Model.DhcpOptVal Proofs.Total.

Definition step256 (a b : N) : N := a * 256 + b.

Lemma step_congr : forall M a a' b, M <> 0 -> a mod M = a' mod M -> step256 a b mod M = step256 a' b mod M.
Proof.
  intros M a a' b HM H. unfold step256.
  rewrite (N.add_mod (a * 256)), (N.add_mod (a' * 256)) by exact HM.
  rewrite (N.mul_mod a), (N.mul_mod a') by exact HM. rewrite H. reflexivity.
Qed.

Lemma fold_congr : forall M r a a', M <> 0 -> a mod M = a' mod M ->
  fold_left step256 r a mod M = fold_left step256 r a' mod M.
Proof.
  induction r as [|b r IH]; intros a a' HM H; simpl; [exact H|].
  apply IH; [exact HM | apply step_congr; assumption].
Qed.

Lemma fold_u_value : forall w K, pow2 w = K * 256 -> K <> 0 ->
  forall v acc, bytes_ok v = true -> acc < pow2 w ->
  fold_u w acc v = Ok (fold_left step256 v acc mod pow2 w).
Proof.
  intros w K Hw HK. assert (HM : pow2 w <> 0) by (rewrite Hw; lia).
  induction v as [|b r IH]; intros acc Hv Ha; simpl.
  - rewrite N.mod_small by exact Ha. reflexivity.
  - simpl in Hv. apply andb_true_iff in Hv. destruct Hv as [Hb Hr].
    unfold byte_ok in Hb. apply N.ltb_lt in Hb.
    unfold add_chk, cast.
    assert (Hroom : (acc * 256) mod pow2 w + b < pow2 w).
    { rewrite Hw. rewrite N.mul_mod_distr_r by lia. pose proof (N.mod_lt acc K HK). nia. }
    pose proof Hroom as Hroom'. apply N.ltb_lt in Hroom'. rewrite Hroom'. simpl.
    rewrite IH by assumption.
    f_equal. apply fold_congr; [exact HM|].
    unfold step256. apply N.add_mod_idemp_l. exact HM.
Qed.

Lemma be_decode_step : forall v, be_decode v = fold_left step256 v 0.
Proof. reflexivity. Qed.

Lemma parse_u16_value : forall v, bytes_ok v = true -> parse_u16 v = Ok (be_decode v mod 65536).
Proof. intros v H. unfold parse_u16. rewrite (fold_u_value 16 256) by (try reflexivity; try discriminate; assumption). reflexivity. Qed.
Lemma parse_u32_value : forall v, bytes_ok v = true -> parse_u32 v = Ok (be_decode v mod 4294967296).
Proof. intros v H. unfold parse_u32. rewrite (fold_u_value 32 16777216) by (try reflexivity; try discriminate; assumption). reflexivity. Qed.
Lemma parse_u64_value : forall v, bytes_ok v = true -> parse_u64 v = Ok (be_decode v mod 18446744073709551616).
Proof. intros v H. unfold parse_u64. rewrite (fold_u_value 64 72057594037927936) by (try reflexivity; try discriminate; assumption). reflexivity. Qed.

(* i32: the same bit pattern *)
Lemma add_i32_value : forall acc b, b < 256 ->
  add_i32_chk (cast 32 (acc * 256)) b = Ok ((acc * 256) mod 4294967296 + b) /\
  (acc * 256) mod 4294967296 + b < 4294967296.
Proof.
  intros acc b Hb. unfold cast. change (pow2 32) with 4294967296.
  assert (R : (acc * 256) mod 4294967296 = (acc mod 16777216) * 256)
    by (change 4294967296 with (16777216 * 256); apply N.mul_mod_distr_r; lia).
  rewrite R. unfold add_i32_chk.
  pose proof (N.mod_lt acc 16777216 ltac:(discriminate)) as Hk.
  set (k := acc mod 16777216) in *.
  split; [|lia].
  unfold to_signed32.
  destruct (k * 256 <? 2147483648) eqn:E.
  - apply N.ltb_lt in E.
    assert (H1 : (Z.of_N (k * 256) + Z.of_N b <=? 2147483647)%Z = true) by (apply Z.leb_le; lia).
    assert (H2 : (-2147483648 <=? Z.of_N (k * 256) + Z.of_N b)%Z = true) by (apply Z.leb_le; lia).
    rewrite H1, H2. simpl. f_equal.
    rewrite Z.mod_small by lia. lia.
  - apply N.ltb_ge in E.
    assert (H1 : (Z.of_N (k * 256) - 4294967296 + Z.of_N b <=? 2147483647)%Z = true) by (apply Z.leb_le; lia).
    assert (H2 : (-2147483648 <=? Z.of_N (k * 256) - 4294967296 + Z.of_N b)%Z = true) by (apply Z.leb_le; lia).
    rewrite H1, H2. simpl. f_equal.
    replace (Z.of_N (k * 256) - 4294967296 + Z.of_N b)%Z
      with (Z.of_N (k * 256) + Z.of_N b + (-1) * 4294967296)%Z by lia.
    rewrite Z.mod_add by lia. rewrite Z.mod_small by lia. lia.
Qed.

Lemma fold_i32_value : forall v acc, bytes_ok v = true -> acc < 4294967296 ->
  fold_i32 acc v = Ok (fold_left step256 v acc mod 4294967296).
Proof.
  induction v as [|b r IH]; intros acc Hv Ha; simpl.
  - rewrite N.mod_small by exact Ha. reflexivity.
  - simpl in Hv. apply andb_true_iff in Hv. destruct Hv as [Hb Hr].
    unfold byte_ok in Hb. apply N.ltb_lt in Hb.
    destruct (add_i32_value acc b Hb) as [E Hroom]. rewrite E. simpl.
    rewrite IH by assumption.
    f_equal. apply fold_congr; [discriminate|].
    unfold step256. apply N.add_mod_idemp_l. discriminate.
Qed.
Lemma parse_i32_value : forall v, bytes_ok v = true -> parse_i32 v = Ok (be_decode v mod 4294967296).
Proof. intros v H. unfold parse_i32. rewrite fold_i32_value by (try assumption; reflexivity). reflexivity. Qed.

Lemma int_fold_values : forall v, bytes_ok v = true ->
  parse_u16 v = Ok (be_decode v mod 2 ^ 16) /\ parse_u32 v = Ok (be_decode v mod 2 ^ 32) /\
  parse_u64 v = Ok (be_decode v mod 2 ^ 64) /\ parse_i32 v = Ok (be_decode v mod 2 ^ 32).
Proof.
  intros v H. repeat split.
  - apply parse_u16_value; exact H.
  - apply parse_u32_value; exact H.
  - apply parse_u64_value; exact H.
  - apply parse_i32_value; exact H.
Qed.

(* C18 on the composed server model: a restart (rows kept, identifier set lost) is not
   observable for single-homed use; a kill between the INSERT and the send followed by a
   restart keeps "no double allocation". *)
From Erbium Require Import Lib.Base Model.DhcpCodec Model.DhcpOptVal Model.DhcpPolicy Model.DhcpAddrs
  Model.DhcpPool Model.DhcpHandler Model.Frame Model.DhcpServer.
From Erbium Require Import Proofs.DhcpPool Proofs.DhcpPoolCrash Proofs.DhcpServer.

(* ---- the identifier set only matters through the server-id gate ------------------- *)
Lemma handle_ids : forall ids ids' e w t2 al l m,
  (msgtype m = Some 3 -> serverid m = None \/ serverid m = Some (e_serverip e)) ->
  handle (step_in_of ids e w t2 al) l m = handle (step_in_of ids' e w t2 al) l m.
Proof.
  intros ids ids' e w t2 al l m H. unfold handle.
  destruct (msgtype m) as [t|]; [|reflexivity].
  destruct (negb ((t =? 1) || (t =? 3))); [reflexivity|].
  destruct (t =? 3) eqn:T3; [|reflexivity].
  apply N.eqb_eq in T3. subst t.
  assert (A : accepted_server (step_in_of ids e w t2 al) m = accepted_server (step_in_of ids' e w t2 al) m).
  { unfold accepted_server. destruct (H eq_refl) as [S|S]; rewrite S; [reflexivity|].
    simpl. rewrite N.eqb_refl. rewrite !orb_true_r. reflexivity. }
  rewrite A. reflexivity.
Qed.

(* same rows, same frame, same kind of outcome; only the identifier sets may differ *)
Definition same_out (a b : outcome (sstate * option (list N))) : Prop :=
  match a, b with
  | Ok (sa, fa), Ok (sb, fb) => fst sa = fst sb /\ fa = fb
  | Err x, Err y => x = y
  | Panic _, Panic _ => True
  | _, _ => False
  end.

Local Opaque too_big.

Lemma step_ids : forall cfg d ids ids' t1 t2 e b ans,
  (forall m, decode b = Ok m -> msgtype m = Some 3 -> serverid m = None \/ serverid m = Some (e_serverip e)) ->
  same_out (server_step cfg (d, ids) t1 t2 e b ans) (server_step cfg (d, ids') t1 t2 e b ans).
Proof.
  intros cfg d ids ids' t1 t2 e b ans H. unfold server_step. cbn [fst snd].
  destruct (decode b) as [m|x|kk]; [|simpl; auto|exact I].
  specialize (H m eq_refl).
  rewrite (handle_ids ids ids' e (walk_of cfg (request_of e m)) t2 None (leases_of d) m H).
  destruct (handle (step_in_of ids' e (walk_of cfg (request_of e m)) t2 None) (leases_of d) m) as [[r0|er] ldb0];
    [reflexivity|].
  destruct er; [simpl; auto|simpl; auto|simpl; auto|simpl; auto|simpl; auto|].
  destruct (alloc_ok d (op_of cfg (walk_of cfg (request_of e m)) m) t1 t2 ans) as [d'|]; [|reflexivity].
  destruct ans as [ip secs k| | | |]; [|simpl; auto|simpl; auto|simpl; auto|exact I].
  rewrite (handle_ids ids ids' e (walk_of cfg (request_of e m)) t2 (Some (ip, secs)) (leases_of d) m H).
  destruct (handle (step_in_of ids' e (walk_of cfg (request_of e m)) t2 (Some (ip, secs))) (leases_of d) m)
    as [[r|er] ldb]; [|reflexivity].
  destruct (to_array (d_chaddr r)) as [[mac|]|x|kk]; [|simpl; auto|reflexivity|exact I].
  destruct (too_big r); [simpl; auto|].
  destruct (udp4_build (frame_args e m r mac)) as [f0|x|kk]; cbn [obind]; [simpl; auto|reflexivity|exact I].
Qed.

(* ---- histories -------------------------------------------------------------------- *)
Lemma server_run_app : forall cfg h1 h2 st,
  server_run cfg st (h1 ++ h2) =
  match server_run cfg st h1 with
  | Some (st1, fs1) =>
    match server_run cfg st1 h2 with
    | Some (st2, fs2) => Some (st2, fs1 ++ fs2)
    | None => None
    end
  | None => None
  end.
Proof.
  intros cfg h1 h2. induction h1 as [|ev h1 IH]; intro st; simpl.
  - destruct (server_run cfg st h2) as [[st2 fs2]|]; reflexivity.
  - destruct (server_step cfg st (se_t1 ev) (se_t2 ev) (se_env ev) (se_bytes ev) (se_ans ev)) as [[st1 fo]|x|kk].
    + rewrite IH. destruct (server_run cfg st1 h1) as [[st1' fs1]|]; [|reflexivity].
      destruct (server_run cfg st1' h2) as [[st2 fs2]|]; [|reflexivity].
      destruct fo; reflexivity.
    + reflexivity.
    + apply IH.
Qed.

Lemma run_ids : forall cfg h d ids ids',
  Forall names_own_address h ->
  option_map view (server_run cfg (d, ids) h) = option_map view (server_run cfg (d, ids') h).
Proof.
  intros cfg h. induction h as [|ev h IH]; intros d ids ids' F; [reflexivity|].
  inversion F as [|? ? N1 F']; subst. simpl.
  pose proof (step_ids cfg d ids ids' (se_t1 ev) (se_t2 ev) (se_env ev) (se_bytes ev) (se_ans ev) N1) as S.
  destruct (server_step cfg (d, ids) (se_t1 ev) (se_t2 ev) (se_env ev) (se_bytes ev) (se_ans ev)) as [[[d1 i1] fo]|x|kk];
    destruct (server_step cfg (d, ids') (se_t1 ev) (se_t2 ev) (se_env ev) (se_bytes ev) (se_ans ev)) as [[[d1' i1'] fo']|x'|kk'];
    simpl in S; try contradiction.
  - destruct S as [Ed Ef]. simpl in Ed. subst d1' fo'.
    specialize (IH d1 i1 i1' F').
    destruct (server_run cfg (d1, i1) h) as [[st2 fs2]|]; destruct (server_run cfg (d1, i1') h) as [[st2' fs2']|];
      simpl in IH; try discriminate IH; [|reflexivity].
    unfold view in IH. simpl in IH. inversion IH. unfold view. simpl. destruct fo; congruence.
  - reflexivity.
  - apply IH. exact F'.
Qed.

Lemma restart_transparent : forall cfg st h1 h2,
  Forall names_own_address h2 ->
  option_map view (server_run cfg st (h1 ++ h2)) = option_map view (run_restart cfg st h1 h2).
Proof.
  intros cfg st h1 h2 F. rewrite server_run_app. unfold run_restart.
  destruct (server_run cfg st h1) as [[[d1 i1] fs1]|]; [|reflexivity].
  unfold restart. cbn [fst].
  pose proof (run_ids cfg h2 d1 i1 [] F) as R.
  destruct (server_run cfg (d1, i1) h2) as [[st2 fs2]|]; destruct (server_run cfg (d1, []) h2) as [[st2' fs2']|];
    simpl in R; try discriminate R; [|reflexivity].
  unfold view in *. simpl in *. inversion R. congruence.
Qed.

(* ---- kill between the INSERT and the send, then restart -------------------------- *)
Lemma server_run_k_pool : forall cfg M h st now st' fs log,
  sc_max cfg = M -> sc_min cfg <= sc_max cfg ->
  wf_times M now (map fst h) = true ->
  server_run_k cfg st h = Some (st', fs) ->
  wf_lossy_from M now (pool_history_k cfg st h) = true /\
  exists log', run_lossy_from (fst st, log) (pool_history_k cfg st h) = Some (fst st', log').
Proof.
  intros cfg M h. induction h as [|[ev killed] h IH]; intros st now st' fs log EM Lm W H; simpl in *.
  - inversion H; subst. split; [reflexivity|]. exists log. reflexivity.
  - repeat (apply andb_true_iff in W; destruct W as [W ?]).
    destruct (server_step cfg st (se_t1 ev) (se_t2 ev) (se_env ev) (se_bytes ev) (se_ans ev)) as [[st1 fo]|x|kk] eqn:S;
      [|discriminate H|].
    + remember (if killed then restart st1 else st1) as stn eqn:Estn.
      assert (FS : fst stn = fst st1) by (subst stn; destruct killed; reflexivity).
      destruct (server_run_k cfg stn h) as [[st2 fs2]|] eqn:R; [|discriminate H].
      inversion H; subst st2.
      pose proof (step_pool _ _ _ _ _ S) as P.
      destruct (pool_event cfg st ev) as [[pe lost]|].
      * destruct pe as [o a1 a2 a| |]; try contradiction.
        destruct P as [A [E1 [E2 [E3 [E4 E5]]]]]. subst a1 a2.
        destruct (IH stn (se_t2 ev) st' fs2
                     (if lost || killed then log
                      else match a with Granted ip secs _ => grant_of o (se_t2 ev) ip secs :: log | _ => log end)
                     EM Lm H0 R) as [W1 [log' R1]].
        split.
        -- simpl. rewrite W, H2, H1, W1. rewrite E3, E4, EM.
           assert (X : (sc_min cfg <=? M) = true) by (apply N.leb_le; lia).
           rewrite X, N.eqb_refl. reflexivity.
        -- exists log'. simpl. rewrite A. rewrite FS in R1. destruct (lost || killed); simpl; exact R1.
      * destruct (IH stn (se_t2 ev) st' fs2 log EM Lm H0 R) as [W1 [log' R1]].
        simpl. split.
        -- apply (wf_lossy_mono M _ (se_t2 ev)); [exact W1|]. apply N.leb_le in W. apply N.leb_le in H2. lia.
        -- exists log'. rewrite FS in R1. rewrite <- P. exact R1.
    + remember (if killed then restart st else st) as stn eqn:Estn.
      assert (FS : fst stn = fst st) by (subst stn; destruct killed; reflexivity).
      destruct (IH stn (se_t2 ev) st' fs log EM Lm H0 H) as [W1 [log' R1]].
      split.
      * apply (wf_lossy_mono M _ (se_t2 ev)); [exact W1|]. apply N.leb_le in W. apply N.leb_le in H2. lia.
      * exists log'. rewrite FS in R1. exact R1.
Qed.

Lemma server_k_no_double : forall cfg M h st now st' fs,
  sc_max cfg = M -> sc_min cfg <= sc_max cfg ->
  Inv (fst st) -> RowsOK M now (fst st) ->
  wf_times M now (map fst h) = true ->
  server_run_k cfg st h = Some (st', fs) ->
  exists log, run_lossy_from (fst st, []) (pool_history_k cfg st h) = Some (fst st', log) /\
              forall a b x t, a <> b -> ~ (holds log a x t /\ holds log b x t).
Proof.
  intros cfg M h st now st' fs EM Lm I R W H.
  destruct (server_run_k_pool cfg M h st now st' fs [] EM Lm W H) as [WL [log RL]].
  exists log. split; [exact RL|].
  assert (LI : LInv M now (fst st) []).
  { repeat split; try assumption.
    - constructor.
    - destruct (R r H0). assumption.
    - destruct (R r H0). assumption.
    - intros c x g G. simpl in G. discriminate.
    - intros a b x t _ [[g [G _]] _]. simpl in G. discriminate. }
  destruct (run_lossy_linv M _ now (fst st) [] (fst st') log WL LI RL) as [now' [_ [_ [_ [_ N]]]]].
  exact N.
Qed.

(* ---- multi-homed counterexample ---------------------------------------------------- *)
Definition mh_g : config :=
  {| g_dns := None; g_search := []; g_portal := None;
     g_addresses := [P4 3221225984 24; P4 3325256704 24]; g_policies := [] |}.
Definition mh_cfg : scfg :=
  {| sc_conf := mh_g;
     sc_universe := map (fun k => 3221225984 + N.of_nat k) (seq 0 256) ++ map (fun k => 3325256704 + N.of_nat k) (seq 0 256);
     sc_min := 300; sc_max := 86400 |}.
(* interface A = 192.0.2.1, interface B = 198.51.100.1 *)
Definition mh_envA : env := {| e_serverip := 3221225985; e_mac := [2; 0; 94; 16; 0; 1]; e_port := 68; e_mtu := None; e_router := None |}.
Definition mh_envB : env := {| e_serverip := 3325256705; e_mac := [2; 0; 94; 16; 0; 2]; e_port := 68; e_mtu := None; e_router := None |}.
Definition mh_msg (t : N) (extra : list (N * list N)) : dhcp :=
  {| d_op := 1; d_htype := 1; d_hlen := 6; d_hops := 0; d_xid := 7; d_secs := 0; d_flags := 0;
     d_ciaddr := 0; d_yiaddr := 0; d_siaddr := 0; d_giaddr := 0; d_chaddr := [0; 0; 94; 0; 83; 1];
     d_sname := []; d_file := []; d_options := (53, [t]) :: extra |}.
(* a DISCOVER answered on interface A: the server has now identified itself as 192.0.2.1 *)
Definition mh_h1 : list sevent :=
  [ {| se_t1 := 1000; se_t2 := 1000; se_env := mh_envA; se_bytes := encode (mh_msg 1 []);
       se_ans := Granted 3221226061 300 NewAddress |} ].
(* a REQUEST arriving on interface B that names 192.0.2.1 *)
Definition mh_h2 : list sevent :=
  [ {| se_t1 := 1001; se_t2 := 1001; se_env := mh_envB; se_bytes := encode (mh_msg 3 [(54, [192; 0; 2; 1])]);
       se_ans := Granted 3325256754 300 NewAddress |} ].

Lemma multihomed_refuted :
  exists cfg st h1 h2,
    option_map view (server_run cfg st (h1 ++ h2)) <> option_map view (run_restart cfg st h1 h2).
Proof.
  exists mh_cfg, ([], []), mh_h1, mh_h2. intro H.
  apply (f_equal (option_map (fun v : db * list (list N) => length (snd v)))) in H.
  vm_compute in H. discriminate H.
Qed.

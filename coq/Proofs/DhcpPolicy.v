(* Proofs about Model/DhcpPolicy.v (the walk as coded) against
   Model/DhcpPolicySpec.v (erbium.conf(5)). *)
From Erbium Require Import Lib.Base Model.DhcpPolicy Model.DhcpPolicySpec.

(* ---- induction over policy trees --------------------------------------- *)
Section PolicyInd.
  Variable P : policy -> Prop.
  Hypothesis H : forall a sn ch mo ao ad kids, Forall P kids -> P (Policy a sn ch mo ao ad kids).
  Fixpoint policy_ind' (p : policy) : P p :=
    match p with
    | Policy a sn ch mo ao ad kids =>
      H a sn ch mo ao ad kids
        ((fix go (l : list policy) : Forall P l :=
            match l with
            | [] => Forall_nil P
            | q :: r => Forall_cons q (policy_ind' q) (go r)
            end) kids)
    end.
End PolicyInd.

(* ---- unfolding equations ----------------------------------------------- *)
Lemma check_tree_unfold req p :
  check_tree req p =
  match check_policy req p with
  | MatchSucceeded => true
  | MatchFailed => false
  | NoMatch => check_policies req (p_kids p)
  end.
Proof. destruct p as [a sn ch mo ao ad kids]. simpl check_tree at 1.
  destruct (check_policy req (Policy a sn ch mo ao ad kids)); try reflexivity.
  simpl p_kids. induction kids as [|q r IH]; [reflexivity|].
  simpl check_policies. rewrite <- IH. reflexivity.
Qed.
Lemma matches_unfold req p :
  matches req p =
  match conds p with
  | [] => existsb (matches req) (p_kids p)
  | cs => forallb (holds req) cs
  end.
Proof.
  destruct p as [a sn ch mo ao ad kids]. simpl.
  destruct (conds (Policy a sn ch mo ao ad kids)); [|reflexivity].
  induction kids as [|q r IH]; [reflexivity|]. simpl. rewrite <- IH. reflexivity.
Qed.

Definition first_chain (req : request) (ps : list policy) : list policy :=
  match selected req ps with Some ch => ch | None => [] end.

Lemma selected_in_unfold req p :
  selected_in req p = p :: first_chain req (p_kids p).
Proof.
  destruct p as [a sn ch mo ao ad kids]. simpl. f_equal. unfold first_chain.
  induction kids as [|q r IH]; [reflexivity|]. simpl.
  destruct (matches req q); [reflexivity|]. exact IH.
Qed.

Lemma apply_policy_unfold req p resp :
  apply_policy req p resp =
  let go := match check_policy req p with
            | MatchFailed => false
            | NoMatch => check_policies req (p_kids p)
            | MatchSucceeded => true end in
  if negb go then (false, resp) else
  let r1 := set_addr req p resp in
  let r2 := {| rs_opts := apply_other req (p_apply p) (rs_opts r1); rs_addr := rs_addr r1 |} in
  let r3 := snd (apply_policies req (p_kids p) r2) in
  (true, {| rs_opts := subnet_defaults req p (rs_opts r3); rs_addr := rs_addr r3 |}).
Proof. destruct p as [a sn ch mo ao ad kids]. simpl apply_policy at 1. simpl p_kids. simpl p_apply. cbv zeta.
  match goal with |- (if ?c then _ else _) = _ => destruct c end; [reflexivity|].
  f_equal. 
  assert (E: forall r, (fix apply_list (ps : list policy) (resp0 : response) {struct ps} : bool * response :=
         match ps with
         | [] => (false, resp0)
         | q :: r =>
             let (b, resp') := apply_policy req q resp0 in if b then (true, resp') else apply_list r resp'
         end) kids r = apply_policies req kids r).
  { induction kids as [|q r IH]; intros r0; [reflexivity|]. simpl. destruct (apply_policy req q r0) as [b r']. destruct b; [reflexivity|]. apply IH. }
  simpl p_kids. rewrite E. reflexivity.
Qed.

(* ---- check_policy is "AND of the conditions; none = defer" ------------- *)
Lemma check_others_spec req ms o :
  check_others req ms o =
  if forallb (fun e => other_ok req (fst e) (snd e)) ms
  then Some (match ms with [] => o | _ => MatchSucceeded end) else None.
Proof.
  revert o. induction ms as [|[k m] r IH]; intros o; [reflexivity|].
  simpl. destruct (other_ok req k m); [|reflexivity]. rewrite IH.
  destruct (forallb _ r); [|reflexivity]. destruct r; reflexivity.
Qed.

Lemma other_ok_holds req e :
  other_ok req (fst e) (snd e) =
  holds req (match snd e with Some v => COption (fst e) v | None => CAbsent (fst e) end).
Proof. destruct e as [k [v|]]; simpl; unfold other_ok; destruct (ropt k req); reflexivity. Qed.

Lemma forallb_others req ms :
  forallb (fun e => other_ok req (fst e) (snd e)) ms =
  forallb (holds req) (map (fun e => match snd e with Some v => COption (fst e) v | None => CAbsent (fst e) end) ms).
Proof. induction ms as [|e r IH]; [reflexivity|]. simpl. rewrite other_ok_holds, IH. reflexivity. Qed.

Lemma check_policy_spec req p :
  check_policy req p =
  match conds p with
  | [] => NoMatch
  | cs => if forallb (holds req) cs then MatchSucceeded else MatchFailed
  end.
Proof.
  destruct p as [a sn ch mo ao ad kids]. unfold check_policy, conds.
  cbn [p_all p_chaddr p_subnet p_match].
  set (os := map _ mo).
  assert (Hos : match mo with [] => os = [] | _ => os <> [] end) by (subst os; destruct mo; simpl; congruence).
  assert (Hf : forallb (fun e => other_ok req (fst e) (snd e)) mo = forallb (holds req) os) by apply forallb_others.
  destruct a, ch as [m|], sn as [s|]; cbn [app holds forallb andb];
    try destruct (bytes_eqb (r_chaddr req) m); cbn [andb];
    try (unfold subnet_contains; destruct (N.land (r_serverip req) (netmask (snd s)) =? fst s)); cbn [andb];
    rewrite ?check_others_spec, ?Hf; try reflexivity.
  all: try (destruct (forallb (holds req) os); try reflexivity; destruct mo; reflexivity).
  destruct mo as [|e mo']; [rewrite Hos; reflexivity|].
  destruct os as [|c l]; [congruence|]. cbn [forallb].
  destruct (holds req c && forallb (holds req) l); reflexivity.
Qed.

Lemma check_agree req :
  forall p, check_tree req p = matches req p.
Proof.
  induction p as [a sn ch mo ao ad kids IH] using policy_ind'.
  rewrite check_tree_unfold, matches_unfold, check_policy_spec.
  destruct (conds (Policy a sn ch mo ao ad kids)) as [|c cs].
  - simpl. induction IH as [|q r Hq _ IHr]; [reflexivity|].
    simpl. rewrite Hq. destruct (matches req q); [reflexivity|]. exact IHr.
  - destruct (forallb (holds req) (c :: cs)); reflexivity.
Qed.

Lemma check_policies_spec req ps : check_policies req ps = existsb (matches req) ps.
Proof.
  induction ps as [|q r IH]; [reflexivity|]. simpl. rewrite check_agree.
  destruct (matches req q); [reflexivity|]. exact IH.
Qed.

Lemma go_is_matches req p :
  match check_policy req p with
  | MatchFailed => false
  | NoMatch => check_policies req (p_kids p)
  | MatchSucceeded => true end = matches req p.
Proof.
  rewrite <- check_agree, check_tree_unfold. destruct (check_policy req p); reflexivity.
Qed.

(* ---- one policy's own contribution -------------------------------------- *)
Lemma subnet_defaults_spec req p t : subnet_defaults req p t = subnet_opts req p t.
Proof.
  unfold subnet_defaults, subnet_opts, OPTION_NETMASK, OPTION_BROADCAST, tdefault.
  destruct (p_subnet p) as [s|]; [|reflexivity].
  destruct (requested req 1); simpl.
  - destruct (thas 1 t); simpl; destruct (requested req 28); simpl; try reflexivity;
      match goal with |- context [thas 28 ?x] => destruct (thas 28 x) end; reflexivity.
  - destruct (requested req 28); simpl; [destruct (thas 28 t)|]; reflexivity.
Qed.

Lemma own_step req p resp :
  {| rs_opts := apply_other req (p_apply p) (rs_opts (set_addr req p resp));
     rs_addr := rs_addr (set_addr req p resp) |} =
  {| rs_opts := apply_own req p (rs_opts resp); rs_addr := own_addr req p (rs_addr resp) |}.
Proof.
  unfold set_addr, own_addr, apply_own, apply_other. destruct (p_addr p); reflexivity.
Qed.

(* ---- the walk is the selected chain applied ----------------------------- *)
Definition walk_ok (req : request) (p : policy) : Prop :=
  forall resp, apply_policy req p resp =
    if matches req p then (true, apply_chain req (selected_in req p) resp) else (false, resp).

Lemma apply_policies_from req ps :
  Forall (walk_ok req) ps ->
  forall resp, apply_policies req ps resp =
    match selected req ps with
    | None => (false, resp)
    | Some ch => (true, apply_chain req ch resp)
    end.
Proof.
  induction 1 as [|q r Hq _ IH]; intros resp; [reflexivity|].
  simpl. rewrite Hq. destruct (matches req q); [reflexivity|]. apply IH.
Qed.

Lemma walk_ok_all req : forall p, walk_ok req p.
Proof.
  induction p as [a sn ch mo ao ad kids IH] using policy_ind'.
  intros resp. rewrite apply_policy_unfold. cbv zeta. rewrite go_is_matches.
  destruct (matches req (Policy a sn ch mo ao ad kids)); [|reflexivity]. simpl negb. cbv iota.
  rewrite selected_in_unfold. simpl apply_chain. f_equal.
  rewrite own_step. rewrite (apply_policies_from req _ IH). unfold first_chain. simpl p_kids.
  rewrite subnet_defaults_spec.
  destruct (selected req kids); reflexivity.
Qed.

Theorem walk_is_spec req ps resp :
  apply_policies req ps resp =
  match selected req ps with
  | None => (false, resp)
  | Some ch => (true, apply_chain req ch resp)
  end.
Proof. apply apply_policies_from. apply Forall_forall. intros p _. apply walk_ok_all. Qed.

(* ---- corollaries: one per clause of the property ------------------------ *)

(* siblings in order, the first that matches is applied, later ones are not looked at *)
Lemma selected_first req pre p post :
  (forall q, In q pre -> matches req q = false) -> matches req p = true ->
  selected req (pre ++ p :: post) = Some (selected_in req p).
Proof.
  intros Hpre Hp. induction pre as [|q r IH]; simpl.
  - rewrite Hp. reflexivity.
  - rewrite (Hpre q (or_introl eq_refl)). apply IH. intros q' Hq'. apply Hpre. right. exact Hq'.
Qed.

Lemma first_sibling_only req pre p post resp :
  (forall q, In q pre -> matches req q = false) -> matches req p = true ->
  apply_policies req (pre ++ p :: post) resp = apply_policies req [p] resp.
Proof.
  intros Hpre Hp. rewrite !walk_is_spec.
  rewrite (selected_first req pre p post Hpre Hp).
  simpl selected. rewrite Hp. reflexivity.
Qed.

Lemma selected_none req ps :
  selected req ps = None <-> forall q, In q ps -> matches req q = false.
Proof.
  induction ps as [|q r IH]; simpl.
  - split; [intros _ q []|reflexivity].
  - destruct (matches req q) eqn:E.
    + split; [discriminate|]. intros Hx. rewrite (Hx q (or_introl eq_refl)) in E. discriminate.
    + rewrite IH. split.
      * intros Hx q' [<-|Hq']; [exact E|apply Hx; exact Hq'].
      * intros Hx q' Hq'. apply Hx. right. exact Hq'.
Qed.

Lemma no_sibling_matches req ps resp :
  (forall q, In q ps -> matches req q = false) -> apply_policies req ps resp = (false, resp).
Proof. intros Hx. rewrite walk_is_spec. apply selected_none in Hx. rewrite Hx. reflexivity. Qed.

(* all conditions must hold *)
Lemma and_of_conditions req p :
  conds p <> [] ->
  (matches req p = true <-> forall c, In c (conds p) -> holds req c = true).
Proof.
  intros Hne. rewrite matches_unfold. destruct (conds p) as [|c cs]; [congruence|].
  rewrite forallb_forall. reflexivity.
Qed.

Lemma check_policy_cases req p :
  (check_policy req p = NoMatch <-> conds p = [])
  /\ (check_policy req p = MatchSucceeded <-> conds p <> [] /\ forall c, In c (conds p) -> holds req c = true)
  /\ (check_policy req p = MatchFailed <-> exists c, In c (conds p) /\ holds req c = false).
Proof.
  rewrite check_policy_spec. destruct (conds p) as [|c cs] eqn:E.
  - repeat split; try congruence; try discriminate.
    + intros [Hx _]. congruence.
    + intros [c [[] _]].
  - destruct (forallb (holds req) (c :: cs)) eqn:F.
    + rewrite forallb_forall in F. repeat split; try congruence; try discriminate; try assumption.
      intros [c' [Hin Hf]]. rewrite (F c' Hin) in Hf. discriminate.
    + repeat split; try congruence; try discriminate.
      * intros [_ Hx]. apply forallb_forall in Hx. congruence.
      * intros _. apply Bool.not_true_iff_false in F.
        destruct (existsb (fun c => negb (holds req c)) (c :: cs)) eqn:G.
        -- apply existsb_exists in G. destruct G as [c' [Hin Hn]]. exists c'. split; [exact Hin|].
           destruct (holds req c'); [discriminate|reflexivity].
        -- exfalso. apply F. apply forallb_forall. intros c' Hin.
           destruct (holds req c') eqn:Hc; [reflexivity|].
           assert (existsb (fun c => negb (holds req c)) (c :: cs) = true).
           { apply existsb_exists. exists c'. rewrite Hc. split; [exact Hin|reflexivity]. }
           congruence.
Qed.

(* a policy without conditions applies only if one of its sub-policies does *)
Lemma conditionless_needs_child req p resp :
  conds p = [] ->
  (fst (apply_policies req [p] resp) = true <-> exists c, In c (p_kids p) /\ matches req c = true).
Proof.
  intros Hc. rewrite walk_is_spec. simpl selected.
  rewrite matches_unfold, Hc.
  destruct (existsb (matches req) (p_kids p)) eqn:E; simpl.
  - split; [|reflexivity]. intros _. apply existsb_exists in E. exact E.
  - split; [discriminate|]. intros Hx. apply existsb_exists in Hx. congruence.
Qed.

(* ---- the option table ---------------------------------------------------- *)
Lemma tget_tset_same k v t : tget k (tset k v t) = Some v.
Proof. unfold tget, tset. simpl. rewrite N.eqb_refl. reflexivity. Qed.

Lemma find_filter_other k k' (t : table) :
  k' <> k ->
  find (fun e => fst e =? k) (filter (fun e => negb (fst e =? k')) t) = find (fun e => fst e =? k) t.
Proof.
  intros Hne. induction t as [|[a v] r IH]; [reflexivity|]. simpl.
  destruct (a =? k') eqn:E1; simpl.
  - apply N.eqb_eq in E1. subst a. destruct (k' =? k) eqn:E2; [apply N.eqb_eq in E2; congruence|]. exact IH.
  - destruct (a =? k); [reflexivity|]. exact IH.
Qed.

Lemma tget_tset_other k k' v t : k' <> k -> tget k (tset k' v t) = tget k t.
Proof.
  intros Hne. unfold tget, tset. simpl.
  destruct (k' =? k) eqn:E; [apply N.eqb_eq in E; congruence|].
  rewrite find_filter_other by exact Hne. reflexivity.
Qed.

Lemma thas_tget k t : thas k t = match tget k t with Some _ => true | None => false end.
Proof. reflexivity. Qed.


Lemma apply_own_get req p k t :
  tget k (apply_own req p t) =
  if requested req k
  then match last_for k (p_apply p) with Some v => Some v | None => tget k t end
  else tget k t.
Proof.
  unfold apply_own, last_for. generalize (p_apply p) as ao. intros ao.
  induction ao as [|e ao IH] using rev_ind; [simpl; destruct (requested req k); reflexivity|].
  rewrite fold_left_app, rev_app_distr. simpl.
  destruct (fst e =? k) eqn:E.
  - apply N.eqb_eq in E. subst k. destruct (requested req (fst e)).
    + apply tget_tset_same.
    + exact IH.
  - assert (Hne : fst e <> k) by (intros Hx; rewrite Hx, N.eqb_refl in E; discriminate).
    destruct (requested req (fst e)); [rewrite tget_tset_other by exact Hne|]; exact IH.
Qed.

Lemma subnet_opts_get req p k t :
  k <> 1 -> k <> 28 -> tget k (subnet_opts req p t) = tget k t.
Proof.
  intros H1 H28. unfold subnet_opts. destruct (p_subnet p) as [s|]; [|reflexivity].
  destruct (requested req 28 && negb _).
  - rewrite tget_tset_other by congruence.
    destruct (requested req 1 && negb _); [rewrite tget_tset_other by congruence|]; reflexivity.
  - destruct (requested req 1 && negb _); [rewrite tget_tset_other by congruence|]; reflexivity.
Qed.

Lemma subnet_opts_unrequested req p k t :
  requested req k = false -> tget k (subnet_opts req p t) = tget k t.
Proof.
  intros Hr. unfold subnet_opts. destruct (p_subnet p) as [s|]; [|reflexivity].
  assert (A : forall t', tget k (if requested req 1 && negb (thas 1 t') then tset 1 (Some (be32 (netmask (snd s)))) t' else t') = tget k t').
  { intros t'. destruct (N.eq_dec k 1) as [->|Hne].
    - rewrite Hr. reflexivity.
    - destruct (_ && _); [rewrite tget_tset_other by congruence|]; reflexivity. }
  destruct (N.eq_dec k 28) as [->|Hne].
  - rewrite Hr. simpl. apply A.
  - destruct (requested req 28 && _); [rewrite tget_tset_other by congruence|]; apply A.
Qed.

(* the value a chain leaves for an option the client asked for (not one of
   the two subnet-derived ones): that of the innermost policy that names it *)
Lemma chain_value_get req k ch :
  requested req k = true -> k <> 1 -> k <> 28 ->
  forall resp, tget k (rs_opts (apply_chain req ch resp)) = chain_value k ch (tget k (rs_opts resp)).
Proof.
  intros Hr H1 H28. induction ch as [|p rest IH]; intros resp; [reflexivity|].
  simpl. rewrite subnet_opts_get by assumption. rewrite IH. simpl.
  rewrite apply_own_get, Hr. reflexivity.
Qed.

Lemma chain_value_app k a b x : chain_value k (a ++ b) x = chain_value k b (chain_value k a x).
Proof. revert x. induction a as [|p r IH]; intros x; [reflexivity|]. simpl. apply IH. Qed.

(* options of outer policies first, inner policies override *)
Lemma inner_overrides_outer req k outer q v resp :
  requested req k = true -> k <> 1 -> k <> 28 ->
  last_for k (p_apply q) = Some v ->
  tget k (rs_opts (apply_chain req (outer ++ [q]) resp)) = Some v.
Proof.
  intros Hr H1 H28 Hl. rewrite chain_value_get by assumption. rewrite chain_value_app. simpl.
  rewrite Hl. reflexivity.
Qed.

(* an option not named by the inner policies keeps the outer value *)
Lemma outer_inherited req k outer inner resp :
  requested req k = true -> k <> 1 -> k <> 28 ->
  (forall q, In q inner -> last_for k (p_apply q) = None) ->
  tget k (rs_opts (apply_chain req (outer ++ inner) resp)) =
  tget k (rs_opts (apply_chain req outer resp)).
Proof.
  intros Hr H1 H28 Hn. rewrite !chain_value_get by assumption. rewrite chain_value_app.
  generalize (chain_value k outer (tget k (rs_opts resp))) as x.
  induction inner as [|q r IH]; intros x; [reflexivity|]. simpl.
  rewrite (Hn q (or_introl eq_refl)).
  apply IH. intros q' Hq'. apply Hn. right. exact Hq'.
Qed.

(* ---- keys of the table stay distinct; null really removes ---------------- *)

Lemma filter_keys_in k k' (t : table) :
  In k (tkeys (filter (fun e => negb (fst e =? k')) t)) -> In k (tkeys t) /\ k <> k'.
Proof.
  induction t as [|[a v] r IH]; simpl; [intros []|].
  destruct (a =? k') eqn:E; simpl.
  - intros Hin. destruct (IH Hin) as [A B]. split; [right; exact A|exact B].
  - intros [<-|Hin].
    + split; [left; reflexivity|]. intros ->. rewrite N.eqb_refl in E. discriminate.
    + destruct (IH Hin) as [A B]. split; [right; exact A|exact B].
Qed.

Lemma filter_nodup k' (t : table) :
  NoDup (tkeys t) -> NoDup (tkeys (filter (fun e => negb (fst e =? k')) t)).
Proof.
  induction t as [|[a v] r IH]; simpl; intros Hn; [constructor|].
  inversion Hn as [|? ? Hnotin Hr]; subst.
  destruct (a =? k'); simpl; [apply IH; exact Hr|].
  constructor; [|apply IH; exact Hr].
  intros Hin. apply filter_keys_in in Hin. apply Hnotin. apply Hin.
Qed.

Lemma tset_nodup k v t : NoDup (tkeys t) -> NoDup (tkeys (tset k v t)).
Proof.
  intros Hn. unfold tset. simpl. constructor; [|apply filter_nodup; exact Hn].
  intros Hin. apply filter_keys_in in Hin. destruct Hin as [_ Hne]. congruence.
Qed.

Lemma apply_own_nodup req p t : NoDup (tkeys t) -> NoDup (tkeys (apply_own req p t)).
Proof.
  unfold apply_own. generalize (p_apply p) as ao. intros ao. revert t.
  induction ao as [|e r IH]; intros t Hn; [exact Hn|]. simpl. apply IH.
  destruct (requested req (fst e)); [apply tset_nodup|]; exact Hn.
Qed.

Lemma subnet_opts_nodup req p t : NoDup (tkeys t) -> NoDup (tkeys (subnet_opts req p t)).
Proof.
  intros Hn. unfold subnet_opts. destruct (p_subnet p) as [s|]; [|exact Hn].
  assert (A : NoDup (tkeys (if requested req 1 && negb (thas 1 t) then tset 1 (Some (be32 (netmask (snd s)))) t else t))).
  { destruct (_ && _); [apply tset_nodup|]; exact Hn. }
  destruct (requested req 28 && _); [apply tset_nodup|]; exact A.
Qed.

Lemma apply_chain_nodup req ch :
  forall resp, NoDup (tkeys (rs_opts resp)) -> NoDup (tkeys (rs_opts (apply_chain req ch resp))).
Proof.
  induction ch as [|p rest IH]; intros resp Hn; [exact Hn|]. simpl.
  apply subnet_opts_nodup. apply IH. simpl. apply apply_own_nodup. exact Hn.
Qed.

Lemma to_options_absent k t :
  NoDup (tkeys t) -> tget k t = Some None -> ~ In k (map fst (to_options t)).
Proof.
  induction t as [|[a v] r IH]; simpl; intros Hn Hg; [discriminate|].
  inversion Hn as [|? ? Hnotin Hr]; subst.
  unfold tget in Hg. simpl in Hg. destruct (a =? k) eqn:E.
  - apply N.eqb_eq in E. subst a. simpl in Hg. injection Hg as ->. simpl.
    intros Hin. apply Hnotin. clear -Hin.
    induction r as [|[b w] r IH]; simpl in *; [exact Hin|].
    destruct w; simpl in Hin; [destruct Hin as [->|Hin]; [left; reflexivity|right; apply IH; exact Hin]|right; apply IH; exact Hin].
  - destruct v; simpl.
    + intros [->|Hin]; [rewrite N.eqb_refl in E; discriminate|]. revert Hin. apply IH; [exact Hr|exact Hg].
    + apply IH; [exact Hr|exact Hg].
Qed.

(* null removes an inherited or default value *)
Lemma null_unsets req k outer q resp :
  requested req k = true -> k <> 1 -> k <> 28 ->
  NoDup (tkeys (rs_opts resp)) ->
  last_for k (p_apply q) = Some None ->
  ~ In k (map fst (to_options (rs_opts (apply_chain req (outer ++ [q]) resp)))).
Proof.
  intros Hr H1 H28 Hn Hl. apply to_options_absent.
  - apply apply_chain_nodup. exact Hn.
  - apply inner_overrides_outer; assumption.
Qed.

(* an option is only touched if the client asked for it *)
Lemma chain_unrequested req k ch :
  requested req k = false ->
  forall resp, tget k (rs_opts (apply_chain req ch resp)) = tget k (rs_opts resp).
Proof.
  intros Hr. induction ch as [|p rest IH]; intros resp; [reflexivity|]. simpl.
  rewrite subnet_opts_unrequested by exact Hr. rewrite IH. simpl.
  rewrite apply_own_get, Hr. reflexivity.
Qed.

Lemma only_requested_options req ps resp k :
  requested req k = false ->
  tget k (rs_opts (snd (apply_policies req ps resp))) = tget k (rs_opts resp).
Proof.
  intros Hr. rewrite walk_is_spec. destruct (selected req ps); [|reflexivity].
  simpl. apply chain_unrequested. exact Hr.
Qed.

(* ---- an option that is already in the table (value or null) ------------- *)
Lemma subnet_opts_present req p k t :
  thas k t = true -> tget k (subnet_opts req p t) = tget k t.
Proof.
  intros Hp. unfold subnet_opts. destruct (p_subnet p) as [s|]; [|reflexivity].
  set (t1 := if requested req 1 && negb (thas 1 t) then tset 1 (Some (be32 (netmask (snd s)))) t else t).
  assert (A : tget k t1 = tget k t).
  { subst t1. destruct (N.eq_dec k 1) as [->|Hne].
    - rewrite Hp, Bool.andb_false_r. reflexivity.
    - destruct (_ && _); [rewrite tget_tset_other by congruence|]; reflexivity. }
  destruct (N.eq_dec k 28) as [->|Hne].
  - assert (B : thas 28 t1 = true) by (unfold thas in *; rewrite A; exact Hp).
    rewrite B, Bool.andb_false_r. exact A.
  - destruct (requested req 28 && _); [rewrite tget_tset_other by congruence|]; exact A.
Qed.

Lemma chain_value_some k ch v : exists w, chain_value k ch (Some v) = Some w.
Proof.
  revert v. induction ch as [|p r IH]; intros v; [exists v; reflexivity|]. simpl.
  destruct (last_for k (p_apply p)) as [w|]; apply IH.
Qed.

Lemma chain_value_get_present req k ch :
  requested req k = true ->
  forall resp v, tget k (rs_opts resp) = Some v ->
  tget k (rs_opts (apply_chain req ch resp)) = chain_value k ch (Some v).
Proof.
  intros Hr. induction ch as [|p rest IH]; intros resp v Hv; [exact Hv|]. simpl.
  set (r1 := {| rs_opts := apply_own req p (rs_opts resp); rs_addr := own_addr req p (rs_addr resp) |}).
  assert (H1 : tget k (rs_opts r1) = Some (match last_for k (p_apply p) with Some w => w | None => v end)).
  { subst r1. simpl. rewrite apply_own_get, Hr, Hv. destruct (last_for k (p_apply p)); reflexivity. }
  pose proof (IH r1 _ H1) as H2.
  rewrite subnet_opts_present.
  - rewrite H2. destruct (last_for k (p_apply p)); reflexivity.
  - unfold thas. rewrite H2. destruct (chain_value_some k rest (match last_for k (p_apply p) with Some w => w | None => v end)) as [w ->].
    reflexivity.
Qed.

Lemma subnet_opts_sets_netmask req p s t :
  p_subnet p = Some s -> requested req 1 = true -> tget 1 t = None ->
  tget 1 (subnet_opts req p t) = Some (Some (be32 (netmask (snd s)))).
Proof.
  intros Hs Hr Hn. unfold subnet_opts. rewrite Hs, Hr. unfold thas. rewrite Hn. simpl.
  destruct (requested req 28 && _); [rewrite tget_tset_other by discriminate|]; apply tget_tset_same.
Qed.

Lemma subnet_opts_sets_broadcast req p s t :
  p_subnet p = Some s -> requested req 28 = true -> tget 28 t = None ->
  tget 28 (subnet_opts req p t) = Some (Some (be32 (subnet_broadcast s))).
Proof.
  intros Hs Hr Hn. unfold subnet_opts. rewrite Hs, Hr.
  assert (A : thas 28 (if requested req 1 && negb (thas 1 t) then tset 1 (Some (be32 (netmask (snd s)))) t else t) = false).
  { unfold thas at 1. destruct (_ && _); [rewrite tget_tset_other by discriminate|]; rewrite Hn; reflexivity. }
  rewrite A. simpl. apply tget_tset_same.
Qed.

From Erbium Require Import Lib.Base Model.DhcpPolicy Model.DhcpPolicySpec.

Lemma apply_policies_nil req resp : apply_policies req [] resp = (false, resp).
Proof. reflexivity. Qed.

(* Lemmas about Model/DnsRoute.v (property C15). *)
From Erbium Require Import Lib.Base Lib.ListEqbFacts Model.DnsRoute.
From Coq Require Import Permutation Arith.

(* ---- specification vocabulary (from the property text) ------------------ *)
Definition label_eq_ci (a b : label) : Prop := map lower a = map lower b.
Definition name_eq_ci (a b : name) : Prop := Forall2 label_eq_ci a b.
(* q ends with s: whole labels, ASCII case-insensitive *)
Definition suffix_ci (s q : name) : Prop := exists pre t, q = pre ++ t /\ name_eq_ci t s.

(* no suffix (up to case) is listed under two different actions *)
Definition table_functional (rt : table) : Prop :=
  forall s1 a1 s2 a2, In (s1, a1) (entries rt) -> In (s2, a2) (entries rt) -> name_eq_ci s1 s2 -> a1 = a2.

(* the same routes in another order, each with its suffixes in another order *)
Definition Permutation_tables (rt rt' : table) : Prop :=
  exists rt'', Permutation rt rt'' /\
    Forall2 (fun r r' => act r = act r' /\ Permutation (suffixes r) (suffixes r')) rt'' rt'.

Lemma label_eqb_ci_spec : forall a b, label_eqb_ci a b = true <-> label_eq_ci a b.
Proof. intros. unfold label_eqb_ci, label_eq_ci. apply bytes_eqb_eq. Qed.

Lemma name_eqb_ci_spec : forall a b, name_eqb_ci a b = true <-> name_eq_ci a b.
Proof. intros. unfold name_eqb_ci, name_eq_ci. apply list_eqb_Forall2. apply label_eqb_ci_spec. Qed.

(* ---- case-insensitive equality is an equivalence --------------------------- *)
Lemma name_eq_ci_refl : forall a, name_eq_ci a a.
Proof. induction a; constructor; [reflexivity | assumption]. Qed.
Lemma name_eq_ci_sym : forall a b, name_eq_ci a b -> name_eq_ci b a.
Proof. intros a b H. induction H; constructor; [symmetry; assumption | assumption]. Qed.
Lemma name_eq_ci_trans : forall a b c, name_eq_ci a b -> name_eq_ci b c -> name_eq_ci a c.
Proof.
  intros a b c H. revert c. induction H; intros c H2; inversion H2; subst; constructor.
  - unfold label_eq_ci in *. congruence.
  - apply IHForall2. assumption.
Qed.
Lemma name_eq_ci_length : forall a b, name_eq_ci a b -> length a = length b.
Proof. intros a b H. induction H; simpl; congruence. Qed.

(* ---- ends_with is the suffix relation -------------------------------------- *)
Lemma ends_with_spec : forall q s, ends_with q s = true <-> suffix_ci s q.
Proof.
  intros q s. unfold ends_with, ends_with_by, suffix_ci. split.
  - destruct (Nat.leb_spec (length s) (length q)) as [L|L]; [|discriminate].
    intro E. exists (firstn (length q - length s) q), (skipn (length q - length s) q). split.
    + symmetry. apply firstn_skipn.
    + apply (list_eqb_Forall2 label_eqb_ci label_eq_ci label_eqb_ci_spec). exact E.
  - intros (pre & t & -> & H). pose proof (name_eq_ci_length _ _ H) as HL.
    rewrite app_length. destruct (Nat.leb_spec (length s) (length pre + length t)) as [L|L]; [|lia].
    replace (length pre + length t - length s)%nat with (length pre + 0)%nat by lia.
    rewrite skipn_app, Nat.add_0_r, skipn_all.
    replace (length pre - length pre)%nat with O by lia. simpl.
    apply (list_eqb_Forall2 label_eqb_ci label_eq_ci label_eqb_ci_spec). exact H.
Qed.

Lemma suffix_ci_nil : forall q, suffix_ci [] q.
Proof. intro q. exists q, []. split; [symmetry; apply app_nil_r | constructor]. Qed.

Lemma ends_with_nil : forall q, ends_with q [] = true.
Proof. intro q. apply ends_with_spec, suffix_ci_nil. Qed.

Lemma suffix_ci_length : forall s q, suffix_ci s q -> (length s <= length q)%nat.
Proof.
  intros s q (pre & t & -> & H). rewrite app_length, (name_eq_ci_length _ _ H). lia.
Qed.

Lemma app_inj_length_r : forall {A} (a b c d : list A),
  a ++ b = c ++ d -> length b = length d -> a = c /\ b = d.
Proof.
  intros A a. induction a as [|x a IH]; intros b c d E L.
  - destruct c as [|y c]; simpl in *; [auto|].
    exfalso. assert (length b = length (y :: c ++ d)) by (rewrite E; reflexivity).
    simpl in H. rewrite app_length in H. lia.
  - destruct c as [|y c]; simpl in *.
    + exfalso. assert (length (x :: a ++ b) = length d) by (rewrite E; reflexivity).
      simpl in H. rewrite app_length in H. lia.
    + inversion E; subst. destruct (IH _ _ _ H1 L). subst. auto.
Qed.

(* two suffixes of one name with the same number of labels are the same name up to case *)
Lemma suffix_ci_same_length : forall s s' q,
  suffix_ci s q -> suffix_ci s' q -> length s = length s' -> name_eq_ci s s'.
Proof.
  intros s s' q (p1 & t1 & E1 & H1) (p2 & t2 & E2 & H2) L.
  assert (length t1 = length t2).
  { rewrite (name_eq_ci_length _ _ H1), (name_eq_ci_length _ _ H2). exact L. }
  subst q. destruct (app_inj_length_r _ _ _ _ E2 H) as [_ ->].
  eapply name_eq_ci_trans; [apply name_eq_ci_sym; exact H1 | exact H2].
Qed.

Lemma suffix_ci_query_case : forall s q q', name_eq_ci q q' -> suffix_ci s q -> suffix_ci s q'.
Proof.
  intros s q q' HQ (pre & t & -> & H).
  apply Forall2_app_inv_l in HQ. destruct HQ as (pre' & t' & _ & Ht & ->).
  exists pre', t'. split; [reflexivity|].
  eapply name_eq_ci_trans; [apply name_eq_ci_sym; exact Ht | exact H].
Qed.

(* ---- compare_longest_suffix ------------------------------------------------- *)
Lemma compare_gt_len : forall l r, compare_longest_suffix l r = Gt -> (length l <= length r)%nat.
Proof.
  intros l r. unfold compare_longest_suffix.
  destruct (Nat.eqb_spec (length l) (length r)) as [E|E]; simpl; [lia|].
  destruct (Nat.ltb_spec (length l) (length r)); [lia | discriminate].
Qed.
Lemma compare_not_gt_len : forall l r, compare_longest_suffix l r <> Gt -> (length r <= length l)%nat.
Proof.
  intros l r. unfold compare_longest_suffix.
  destruct (Nat.eqb_spec (length l) (length r)) as [E|E]; simpl; [lia|].
  destruct (Nat.ltb_spec (length l) (length r)); [congruence | lia].
Qed.

(* ---- the double loop as one fold over all (index, suffix) candidates -------- *)
Fixpoint cands_from (i : nat) (rt : table) : list (nat * name) :=
  match rt with
  | [] => []
  | r :: rt' => map (fun s => (i, s)) (suffixes r) ++ cands_from (S i) rt'
  end.

Definition step2 (ew : name -> name -> bool) (q : name) (best : option (nat * name)) (c : nat * name) :=
  step_suffix ew q (fst c) best (snd c).

Lemma fold_step_map : forall ew q i l best,
  fold_left (step_suffix ew q i) l best = fold_left (step2 ew q) (map (fun s => (i, s)) l) best.
Proof. intros ew q i l. induction l; intro best; simpl; [reflexivity | apply IHl]. Qed.

Lemma select_from_fold : forall ew q rt i best,
  select_from ew q i rt best = fold_left (step2 ew q) (cands_from i rt) best.
Proof.
  intros ew q rt. induction rt as [|r rt IH]; intros i best; simpl; [reflexivity|].
  rewrite fold_left_app, IH, fold_step_map. reflexivity.
Qed.

Lemma in_cands_from : forall rt i j s,
  In (j, s) (cands_from i rt) <-> exists r, (i <= j)%nat /\ nth_error rt (j - i) = Some r /\ In s (suffixes r).
Proof.
  induction rt as [|r rt IH]; intros i j s; simpl.
  - split; [tauto | intros (r & _ & H & _); destruct (j - i)%nat; discriminate].
  - rewrite in_app_iff, in_map_iff, IH. split.
    + intros [(s0 & E & H) | (r' & L & H1 & H2)].
      * inversion E; subst. exists r. rewrite Nat.sub_diag. auto.
      * exists r'. split; [lia|]. replace (j - i)%nat with (S (j - S i)) by lia. auto.
    + intros (r' & L & H1 & H2). destruct (Nat.eq_dec i j) as [->|NE].
      * rewrite Nat.sub_diag in H1. inversion H1; subst. left. exists s. auto.
      * right. exists r'. split; [lia|]. replace (j - i)%nat with (S (j - S i)) in H1 by lia. auto.
Qed.

(* invariant of the fold: [best] is a longest matching candidate seen so far *)
Definition best_inv (ew : name -> name -> bool) (q : name) (seen : list (nat * name)) (best : option (nat * name)) : Prop :=
  match best with
  | None => forall c, In c seen -> ew q (snd c) = false
  | Some b => In b seen /\ ew q (snd b) = true /\
              forall c, In c seen -> ew q (snd c) = true -> (length (snd c) <= length (snd b))%nat
  end.

Lemma step2_inv : forall ew q seen best c,
  best_inv ew q seen best -> best_inv ew q (seen ++ [c]) (step2 ew q best c).
Proof.
  intros ew q seen best [i s] Inv. unfold step2, step_suffix. simpl.
  destruct (ew q s) eqn:M.
  - destruct best as [[bi bs]|]; simpl in *.
    + destruct Inv as (I1 & I2 & I3).
      destruct (compare_longest_suffix bs s) eqn:C.
      * simpl. split; [apply in_or_app; auto|]. split; [assumption|].
        intros c Hc Mc. apply in_app_or in Hc. destruct Hc as [Hc|[<-|[]]]; [auto|].
        simpl. apply compare_not_gt_len. congruence.
      * simpl. split; [apply in_or_app; auto|]. split; [assumption|].
        intros c Hc Mc. apply in_app_or in Hc. destruct Hc as [Hc|[<-|[]]]; [auto|].
        simpl. apply compare_not_gt_len. congruence.
      * simpl. split; [apply in_or_app; right; left; reflexivity|]. split; [assumption|].
        intros c Hc Mc. apply in_app_or in Hc. destruct Hc as [Hc|[<-|[]]]; simpl; [|lia].
        specialize (I3 c Hc Mc). simpl in I3. apply compare_gt_len in C. lia.
    + split; [apply in_or_app; right; left; reflexivity|]. split; [assumption|].
      intros c Hc Mc. apply in_app_or in Hc. destruct Hc as [Hc|[<-|[]]]; simpl; [|lia].
      rewrite (Inv c Hc) in Mc. discriminate.
  - destruct best as [[bi bs]|]; simpl in *.
    + destruct Inv as (I1 & I2 & I3). split; [apply in_or_app; auto|]. split; [assumption|].
      intros c Hc Mc. apply in_app_or in Hc. destruct Hc as [Hc|[<-|[]]]; [auto|].
      simpl in Mc. congruence.
    + intros c Hc. apply in_app_or in Hc. destruct Hc as [Hc|[<-|[]]]; [auto | assumption].
Qed.

Lemma fold_inv : forall ew q l seen best,
  best_inv ew q seen best -> best_inv ew q (seen ++ l) (fold_left (step2 ew q) l best).
Proof.
  intros ew q l. induction l as [|c l IH]; intros seen best Inv; simpl.
  - rewrite app_nil_r. assumption.
  - replace (seen ++ c :: l) with ((seen ++ [c]) ++ l) by (rewrite <- app_assoc; reflexivity).
    apply IH. apply step2_inv. assumption.
Qed.

Lemma select_inv : forall rt q, best_inv ends_with q (cands_from 0 rt) (select rt q).
Proof.
  intros. unfold select. rewrite select_from_fold.
  apply (fold_inv ends_with q (cands_from 0 rt) [] None). intros c [].
Qed.

Lemma in_cands0 : forall rt j s,
  In (j, s) (cands_from 0 rt) <-> exists r, nth_error rt j = Some r /\ In s (suffixes r).
Proof.
  intros. rewrite in_cands_from. rewrite Nat.sub_0_r. split.
  - intros (r & _ & H); eauto.
  - intros (r & H). exists r. split; [lia | assumption].
Qed.

(* ---- the theorems ----------------------------------------------------------- *)
Lemma select_longest : forall rt q i s, select rt q = Some (i, s) ->
  (exists r, nth_error rt i = Some r /\ In s (suffixes r)) /\
  suffix_ci s q /\
  (forall j r' s', nth_error rt j = Some r' -> In s' (suffixes r') -> suffix_ci s' q ->
     (length s' <= length s)%nat).
Proof.
  intros rt q i s E. pose proof (select_inv rt q) as Inv. rewrite E in Inv.
  destruct Inv as (I1 & I2 & I3). simpl in *. split; [apply in_cands0; assumption|].
  split; [apply ends_with_spec; assumption|].
  intros j r' s' Hn Hs Hm.
  apply (I3 (j, s')); [apply in_cands0; eauto | apply ends_with_spec; assumption].
Qed.

Lemma select_none_iff : forall rt q,
  select rt q = None <-> (forall r s, In r rt -> In s (suffixes r) -> ~ suffix_ci s q).
Proof.
  intros rt q. pose proof (select_inv rt q) as Inv. split.
  - intros E r s Hr Hs Hm. rewrite E in Inv. simpl in Inv.
    apply In_nth_error in Hr. destruct Hr as (j & Hj).
    assert (In (j, s) (cands_from 0 rt)) by (apply in_cands0; eauto).
    specialize (Inv _ H). simpl in Inv. apply ends_with_spec in Hm. congruence.
  - intro H. destruct (select rt q) as [[i s]|] eqn:E; [|reflexivity]. exfalso.
    destruct (select_longest _ _ _ _ E) as ((r & Hn & Hs) & Hm & _).
    apply (H r s); [eapply nth_error_In; eassumption | assumption | assumption].
Qed.

Lemma empty_suffix_matches_all : forall rt q r, In r rt -> In [] (suffixes r) ->
  suffix_ci [] q /\ select rt q <> None.
Proof.
  intros rt q r Hr Hs. split; [apply suffix_ci_nil|].
  intro E. rewrite select_none_iff in E. apply (E r [] Hr Hs). apply suffix_ci_nil.
Qed.

Lemma in_entries : forall rt s a,
  In (s, a) (entries rt) <-> exists r, In r rt /\ In s (suffixes r) /\ act r = a.
Proof.
  intros. unfold entries. rewrite in_flat_map. split.
  - intros (r & Hr & H). apply in_map_iff in H. destruct H as (s0 & E & Hs). inversion E; subst. eauto.
  - intros (r & Hr & Hs & <-). exists r. split; [assumption|]. apply in_map_iff. eauto.
Qed.

(* "outcome(q) = action(argmax_{s suffix of q} labels(s))" *)
Lemma decide_argmax : forall rt q rd s a,
  table_functional rt ->
  In (s, a) (entries rt) -> suffix_ci s q ->
  (forall s' a', In (s', a') (entries rt) -> suffix_ci s' q -> (length s' <= length s)%nat) ->
  decide rt q rd = act_result a rd.
Proof.
  intros rt q rd s a TF Hin Hm Hmax. unfold decide, decide_with.
  destruct (select rt q) as [[i s0]|] eqn:E.
  - destruct (select_longest _ _ _ _ E) as ((r0 & Hn & Hs0) & Hm0 & Hmax0).
    rewrite Hn. f_equal.
    assert (I0 : In (s0, act r0) (entries rt)).
    { apply in_entries. exists r0. split; [eapply nth_error_In; eassumption | auto]. }
    apply (TF s0 (act r0) s a I0 Hin).
    apply (suffix_ci_same_length s0 s q Hm0 Hm).
    apply Nat.le_antisymm.
    + apply (Hmax s0 (act r0) I0 Hm0).
    + apply in_entries in Hin. destruct Hin as (r & Hr & Hs & _).
      apply In_nth_error in Hr. destruct Hr as (j & Hj). exact (Hmax0 j r _ Hj Hs Hm).
  - exfalso. rewrite select_none_iff in E.
    apply in_entries in Hin. destruct Hin as (r & Hr & Hs & _). apply (E r s Hr Hs Hm).
Qed.

Lemma Forall2_in_l : forall {A B} (R : A -> B -> Prop) l l' x,
  Forall2 R l l' -> In x l -> exists y, In y l' /\ R x y.
Proof.
  intros A B R l l' x H. induction H; intros Hin; [destruct Hin|].
  destruct Hin as [<-|Hin]; [exists y; simpl; auto|].
  destruct (IHForall2 Hin) as (y0 & ? & ?). exists y0. simpl. auto.
Qed.
Lemma Forall2_in_r : forall {A B} (R : A -> B -> Prop) l l' y,
  Forall2 R l l' -> In y l' -> exists x, In x l /\ R x y.
Proof.
  intros A B R l l' y H. induction H; intros Hin; [destruct Hin|].
  destruct Hin as [<-|Hin]; [exists x; simpl; auto|].
  destruct (IHForall2 Hin) as (x0 & ? & ?). exists x0. simpl. auto.
Qed.

Lemma permutation_tables_entries : forall rt rt', Permutation_tables rt rt' ->
  forall s a, In (s, a) (entries rt) <-> In (s, a) (entries rt').
Proof.
  intros rt rt' (rt'' & P & F) s a. rewrite !in_entries. split.
  - intros (r & Hr & Hs & Ha). apply (Permutation_in _ P) in Hr.
    destruct (Forall2_in_l _ _ _ _ F Hr) as (r' & Hr' & Ea & Ps).
    exists r'. split; [assumption|]. split; [eapply Permutation_in; eassumption | congruence].
  - intros (r' & Hr' & Hs & Ha).
    destruct (Forall2_in_r _ _ _ _ F Hr') as (r & Hr & Ea & Ps).
    exists r. split; [eapply Permutation_in; [apply Permutation_sym; exact P | exact Hr]|].
    split; [eapply Permutation_in; [apply Permutation_sym; exact Ps | exact Hs] | congruence].
Qed.

Lemma order_and_case_invariant : forall rt rt' q q' rd,
  table_functional rt -> Permutation_tables rt rt' -> name_eq_ci q q' ->
  decide rt q rd = decide rt' q' rd.
Proof.
  intros rt rt' q q' rd TF PT HQ.
  pose proof (permutation_tables_entries _ _ PT) as SE.
  assert (TF' : table_functional rt').
  { intros s1 a1 s2 a2 H1 H2. apply SE in H1. apply SE in H2. eapply TF; eassumption. }
  destruct (select rt q) as [[i s0]|] eqn:E.
  - destruct (select_longest _ _ _ _ E) as ((r0 & Hn & Hs0) & Hm0 & Hmax0).
    assert (I0 : In (s0, act r0) (entries rt)).
    { apply in_entries. exists r0. split; [eapply nth_error_In; eassumption | auto]. }
    assert (Hmax : forall s' a', In (s', a') (entries rt) -> suffix_ci s' q -> (length s' <= length s0)%nat).
    { intros s' a' Hin Hm. apply in_entries in Hin. destruct Hin as (r & Hr & Hs & _).
      apply In_nth_error in Hr. destruct Hr as (j & Hj). exact (Hmax0 j r _ Hj Hs Hm). }
    rewrite (decide_argmax rt q rd s0 (act r0) TF I0 Hm0 Hmax).
    symmetry. apply (decide_argmax rt' q' rd s0 (act r0) TF').
    + apply SE. assumption.
    + eapply suffix_ci_query_case; eassumption.
    + intros s' a' Hin Hm. apply SE in Hin. apply (Hmax s' a' Hin).
      eapply suffix_ci_query_case; [apply name_eq_ci_sym; eassumption | assumption].
  - unfold decide, decide_with. rewrite E.
    assert (E' : select rt' q' = None).
    { apply select_none_iff. intros r' s Hr' Hs Hm.
      assert (Hin : In (s, act r') (entries rt')) by (apply in_entries; eauto).
      apply SE in Hin. apply in_entries in Hin. destruct Hin as (r & Hr & Hs2 & _).
      rewrite select_none_iff in E. apply (E r s Hr Hs2).
      eapply suffix_ci_query_case; [apply name_eq_ci_sym; eassumption | assumption]. }
    rewrite E'. reflexivity.
Qed.

(* what is done with the selected route *)
Lemma decide_actions : forall rt q rd,
  (* forge-nxdomain: NXDOMAIN, and the result names no server *)
  (decide rt q rd = RBlocked <->
     exists i s r, select rt q = Some (i, s) /\ nth_error rt i = Some r /\ act r = Forge) /\
  (* forward: only with RD, only to the selected route's (first) server *)
  (forall srv, decide rt q rd = RForward srv ->
     rd = true /\ exists i s r rest, select rt q = Some (i, s) /\ nth_error rt i = Some r /\
                                     act r = Forward (srv :: rest)) /\
  (* a forward route without RD is refused, not forwarded *)
  (decide rt q rd = RNotAuth ->
     rd = false /\ exists i s r srvs, select rt q = Some (i, s) /\ nth_error rt i = Some r /\
                                      act r = Forward srvs) /\
  (* no route: SERVFAIL *)
  (decide rt q rd = RNoRoute <-> select rt q = None) /\
  rcode_of RBlocked = Some 3 /\ rcode_of RNoRoute = Some 2 /\ rcode_of RNotAuth = Some 5.
Proof.
  intros rt q rd. unfold decide, decide_with.
  destruct (select rt q) as [[i s]|] eqn:E.
  - destruct (select_longest _ _ _ _ E) as ((r & Hn & _) & _). rewrite Hn.
    destruct r as [sufs a]. unfold act. simpl.
    repeat split; try reflexivity.
    + intro H. exists i, s, (sufs, a). repeat split; try assumption.
      destruct a as [|srvs]; [reflexivity|]. simpl in H. destruct rd; [destruct srvs|]; discriminate.
    + intros (i' & s' & r' & E1 & E2 & E3). inversion E1; subst. rewrite Hn in E2. inversion E2; subst.
      simpl in E3. subst. reflexivity.
    + destruct a as [|srvs]; simpl in H; [discriminate|]. destruct rd; [reflexivity|discriminate].
    + destruct a as [|srvs]; simpl in H; [discriminate|].
      destruct rd; [|discriminate]. destruct srvs as [|x rest]; [discriminate|].
      inversion H; subst. exists i, s, (sufs, Forward (srv :: rest)), rest. auto.
    + destruct a as [|srvs]; simpl in H; [discriminate|]. destruct rd; [|reflexivity].
      destruct srvs; discriminate.
    + destruct a as [|srvs]; simpl in H; [discriminate|]. exists i, s, (sufs, Forward srvs), srvs. auto.
    + intro H. destruct a as [|srvs]; simpl in H; [discriminate|].
      destruct rd; [destruct srvs|]; discriminate.
    + discriminate.
  - repeat split; try reflexivity; try discriminate.
    intros (i & s & r & H & _). discriminate.
Qed.

(* Lemmas about Model/DnsRoute.v (property C15). *)
From Erbium Require Import Lib.Base Model.DnsRoute.
From Coq Require Import Permutation Arith.

Lemma ends_with_nil : forall q, ends_with q [] = true.
Proof.
  intro q. unfold ends_with, ends_with_by. simpl.
  rewrite Nat.sub_0_r, skipn_all. reflexivity.
Qed.

(* Proofs about reply assembly on the abstract packet (C03). *)
From Erbium Require Import Lib.Base Model.DnsName Model.DnsCodec Model.DnsForward.

Lemma in_reply_sections q up eo :
  let r := in_reply q up eo in
  qid r = qid q /\ qname r = qname q /\ qtype r = qtype q /\ qclass r = qclass q /\ qr r = true /\
  rcode r = rcode up /\ answer r = answer up /\ nameserver r = nameserver up /\ additional r = additional up.
Proof. cbv zeta. repeat split. Qed.

Lemma outquery_question id q :
  let o := outquery id q in
  qid o = id /\ qname o = qname q /\ qtype o = qtype q /\ qclass o = qclass q /\ qr o = false /\
  answer o = [] /\ nameserver o = [] /\ additional o = [].
Proof. cbv zeta. repeat split. Qed.

(* ageing: same records, every TTL reduced by exactly [age] *)
Definition aged (age : N) (a b : rr) : Prop := strip_ttl a = strip_ttl b /\ r_ttl a + age = r_ttl b.

Lemma age_rrs_spec age : forall rs rs', age_rrs age rs = Ok rs' -> Forall2 (aged age) rs' rs.
Proof.
  induction rs as [|r t IH]; simpl; intros rs' H.
  - inversion H. constructor.
  - unfold sub_chk in H. destruct (age <=? r_ttl r) eqn:E; simpl in H; [|discriminate].
    destruct (age_rrs age t) as [t'| |] eqn:Et; simpl in H; try discriminate.
    inversion H; subst. constructor; auto.
    apply N.leb_le in E. split; [reflexivity|simpl; lia].
Qed.

Lemma age_rrs_total age : forall rs, Forall (fun r => age <= r_ttl r) rs -> exists rs', age_rrs age rs = Ok rs'.
Proof.
  induction rs as [|r t IH]; simpl; intros H; [eauto|].
  inversion H; subst. destruct (IH H3) as [t' Et]. unfold sub_chk.
  apply N.leb_le in H2. rewrite H2. simpl. rewrite Et. simpl. eauto.
Qed.

Lemma min_ttl_le m : Forall (fun r => min_ttl m <= r_ttl r) (answer m ++ nameserver m ++ additional m).
Proof.
  unfold min_ttl. induction (answer m ++ nameserver m ++ additional m) as [|r t IH]; simpl; constructor.
  - lia.
  - eapply Forall_impl; [|exact IH]. simpl. intros. lia.
Qed.

Lemma age_ttls_spec age m : age <= min_ttl m ->
  exists m', age_ttls age m = Ok m' /\
    Forall2 (aged age) (answer m') (answer m) /\ Forall2 (aged age) (nameserver m') (nameserver m) /\
    Forall2 (aged age) (additional m') (additional m) /\
    qid m' = qid m /\ rcode m' = rcode m /\ qname m' = qname m /\ qtype m' = qtype m /\ qclass m' = qclass m.
Proof.
  intros Ha. pose proof (min_ttl_le m) as Hm.
  assert (Hall : Forall (fun r => age <= r_ttl r) (answer m ++ nameserver m ++ additional m)).
  { eapply Forall_impl; [|exact Hm]. simpl. intros. lia. }
  apply Forall_app in Hall as [H1 Hall]. apply Forall_app in Hall as [H2 H3].
  destruct (age_rrs_total _ _ H1) as [an Ean]. destruct (age_rrs_total _ _ H2) as [ns Ens].
  destruct (age_rrs_total _ _ H3) as [ad_ Ead].
  unfold age_ttls. rewrite Ead, Ens, Ean. simpl. eexists. split; [reflexivity|]. simpl.
  repeat split; auto using age_rrs_spec.
Qed.

(* C03 at the abstract level: a reply assembled from an aged upstream reply *)
Lemma reply_sections_aged q up age eo : age <= min_ttl up ->
  exists up', age_ttls age up = Ok up' /\
    let r := in_reply q up' eo in
    qid r = qid q /\ qname r = qname q /\ qtype r = qtype q /\ qclass r = qclass q /\ qr r = true /\
    rcode r = rcode up /\
    Forall2 (aged age) (answer r) (answer up) /\ Forall2 (aged age) (nameserver r) (nameserver up) /\
    Forall2 (aged age) (additional r) (additional up).
Proof.
  intros Ha. destruct (age_ttls_spec age up Ha) as (up' & E & A1 & A2 & A3 & _ & Hr & _).
  exists up'. split; auto. cbv zeta. simpl. repeat split; auto.
Qed.

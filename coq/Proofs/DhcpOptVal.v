(* Proofs about Model/DhcpOptVal.v: no option value, and no packet, makes the
   option-value decoders, log_options or to_array panic; the domain-list loops
   terminate by themselves. *)
From Erbium Require Import Lib.Base Model.DhcpCodec Model.DhcpOptVal Proofs.Total.

Local Ltac ne99 := (unfold FUEL, E_EOF, E_NONE, E_NOTYPE; discriminate).

Lemma to_array_total : forall mac k, to_array mac <> Panic k.
Proof. intros mac k. unfold to_array. destruct (6 <=? lenN mac); discriminate. Qed.

(* ---- Ipv4Subnet -------------------------------------------------------- *)
Lemma good_subnet_new : forall addr plen, good (subnet_new addr plen).
Proof.
  intros. unfold subnet_new. destruct (32 <? plen) eqn:E; [apply good_err; ne99|].
  apply N.ltb_ge in E. unfold netmask, shr_chk.
  assert (H : plen <? 64 = true) by (apply N.ltb_lt; lia). rewrite H. simpl.
  match goal with |- good (if ?c then _ else _) => destruct c end; [apply good_ok | apply good_err; ne99].
Qed.

Lemma subnet_new_plen : forall addr plen a p, subnet_new addr plen = Ok (a, p) -> a = addr /\ p = plen /\ plen <= 32.
Proof.
  intros addr plen a p. unfold subnet_new. destruct (32 <? plen) eqn:E; [discriminate|].
  apply N.ltb_ge in E. destruct (netmask plen); simpl; try discriminate.
  match goal with |- (if ?c then _ else _) = _ -> _ => destruct c end; intros H; inversion H; subst; repeat split; assumption.
Qed.

(* ---- the big-endian folds never overflow -------------------------------- *)
Lemma shifted_room : forall M acc b, M <> 0 -> b < 256 ->
  (acc * 256) mod (M * 256) + b < M * 256.
Proof.
  intros M acc b HM Hb. rewrite N.mul_mod_distr_r by lia.
  pose proof (N.mod_lt acc M HM). nia.
Qed.

Lemma good_fold_u_M : forall w M, pow2 w = M * 256 -> M <> 0 ->
  forall v acc, bytes_ok v = true -> good (fold_u w acc v).
Proof.
  intros w M Hw HM. induction v as [|b r IH]; intros acc Hv; simpl; [exact I|].
  simpl in Hv. apply andb_true_iff in Hv. destruct Hv as [Hb Hr].
  unfold byte_ok in Hb. apply N.ltb_lt in Hb.
  unfold add_chk, cast. rewrite Hw.
  pose proof (shifted_room M acc b HM Hb) as Hroom. apply N.ltb_lt in Hroom. rewrite Hroom.
  simpl. apply IH. exact Hr.
Qed.

Lemma good_parse_u16 : forall v, bytes_ok v = true -> good (parse_u16 v).
Proof. intros; unfold parse_u16. apply (good_fold_u_M 16 256); [reflexivity | discriminate | assumption]. Qed.
Lemma good_parse_u32 : forall v, bytes_ok v = true -> good (parse_u32 v).
Proof. intros; unfold parse_u32. apply (good_fold_u_M 32 16777216); [reflexivity | discriminate | assumption]. Qed.
Lemma good_parse_u64 : forall v, bytes_ok v = true -> good (parse_u64 v).
Proof. intros; unfold parse_u64. apply (good_fold_u_M 64 72057594037927936); [reflexivity | discriminate | assumption]. Qed.

Lemma add_i32_ok : forall acc b, b < 256 -> exists s, add_i32_chk (cast 32 (acc * 256)) b = Ok s.
Proof.
  intros acc b Hb. unfold add_i32_chk, cast.
  change (pow2 32) with (16777216 * 256). rewrite N.mul_mod_distr_r by lia.
  pose proof (N.mod_lt acc 16777216 ltac:(discriminate)) as Hk.
  set (k := acc mod 16777216) in *.
  unfold to_signed32.
  destruct (k * 256 <? 2147483648) eqn:E.
  - apply N.ltb_lt in E.
    assert (H1 : (Z.of_N (k * 256) + Z.of_N b <=? 2147483647)%Z = true) by (apply Z.leb_le; lia).
    assert (H2 : (-2147483648 <=? Z.of_N (k * 256) + Z.of_N b)%Z = true) by (apply Z.leb_le; lia).
    rewrite H1, H2. simpl. eauto.
  - apply N.ltb_ge in E.
    assert (H1 : (Z.of_N (k * 256) - 4294967296 + Z.of_N b <=? 2147483647)%Z = true) by (apply Z.leb_le; lia).
    assert (H2 : (-2147483648 <=? Z.of_N (k * 256) - 4294967296 + Z.of_N b)%Z = true) by (apply Z.leb_le; lia).
    rewrite H1, H2. simpl. eauto.
Qed.

Lemma good_fold_i32 : forall v acc, bytes_ok v = true -> good (fold_i32 acc v).
Proof.
  induction v as [|b r IH]; intros acc Hv; simpl; [exact I|].
  simpl in Hv. apply andb_true_iff in Hv. destruct Hv as [Hb Hr].
  unfold byte_ok in Hb. apply N.ltb_lt in Hb.
  destruct (add_i32_ok acc b Hb) as [s Hs]. rewrite Hs. simpl. apply IH; exact Hr.
Qed.

(* ---- lists of addresses and routes --------------------------------------- *)
Lemma good_parse_iplist_n : forall n v, (length v <= n)%nat -> good (parse_iplist v).
Proof.
  induction n as [|n IH]; intros v Hn.
  - destruct v; [exact I | simpl in Hn; lia].
  - destruct v as [|a [|b [|c [|d r]]]]; simpl; try exact I; try ne99; try (apply good_err; ne99).
    apply good_bind; [apply IH; simpl in Hn; lia | intros; apply good_ok].
Qed.
Lemma good_parse_iplist : forall v, good (parse_iplist v).
Proof. intros; apply (good_parse_iplist_n (length v)); lia. Qed.

Lemma good_parse_routes_n : forall n v, (length v <= n)%nat -> good (parse_routes v).
Proof.
  induction n as [|n IH]; intros v Hn.
  - destruct v; [exact I | simpl in Hn; lia].
  - destruct v as [|p [|a [|b [|c [|d r]]]]]; simpl; try exact I; try ne99; try (apply good_err; ne99).
    apply good_bind; [apply good_subnet_new|]. intros [addr pl] _.
    destruct r as [|e [|f [|g [|h r']]]]; try ne99; try (apply good_err; ne99).
    apply good_bind; [apply IH; simpl in Hn; lia | intros; apply good_ok].
Qed.
Lemma good_parse_routes : forall v, good (parse_routes v).
Proof. intros; apply (good_parse_routes_n (length v)); lia. Qed.

(* ---- domain lists ------------------------------------------------------------ *)
Lemma good_get_u8 : forall l, good (get_u8 l).
Proof. destruct l; simpl; [ne99 | exact I]. Qed.
Lemma good_get_bytes : forall n l, good (get_bytes n l).
Proof. intros; unfold get_bytes; destruct (n <=? lenN l); simpl; [exact I | ne99]. Qed.
Lemma get_u8_inv : forall l b r, get_u8 l = Ok (b, r) -> l = b :: r.
Proof. destruct l; simpl; intros; congruence. Qed.
Lemma get_bytes_inv : forall n l p r, get_bytes n l = Ok (p, r) -> r = dropN n l.
Proof. intros n l p r; unfold get_bytes; destruct (n <=? lenN l); intros; congruence. Qed.

(* get_domain neither panics nor runs out of fuel, and consumes at least one octet *)
Lemma get_domain_spec : forall fuel l acc, (length l < fuel)%nat ->
  good (get_domain fuel l acc) /\
  (forall d r, get_domain fuel l acc = Ok (d, r) -> (length r < length l)%nat).
Proof.
  induction fuel as [|f IH]; intros l acc Hf; [lia|].
  simpl.
  destruct (get_u8 l) as [[len r]| |] eqn:E0; simpl.
  2:{ split; [|discriminate]. pose proof (good_get_u8 l) as G; rewrite E0 in G; exact G. }
  2:{ pose proof (good_get_u8 l) as G; rewrite E0 in G; contradiction. }
  destruct (get_bytes len r) as [[lab r1]| |] eqn:E1; simpl.
  2:{ split; [|discriminate]. pose proof (good_get_bytes len r) as G; rewrite E1 in G; exact G. }
  2:{ pose proof (good_get_bytes len r) as G; rewrite E1 in G; contradiction. }
  apply get_u8_inv in E0. apply get_bytes_inv in E1. subst l r1.
  pose proof (length_dropN _ len r) as Hd.
  destruct lab.
  - split; [exact I|]. intros d r0 H. inversion H; subst. simpl. lia.
  - assert (Hlt : (length (dropN len r) < f)%nat) by (simpl in Hf; lia).
    destruct (IH (dropN len r) ((n :: lab) :: acc) Hlt) as [G S].
    split; [exact G|]. intros d r0 H. apply S in H. simpl. lia.
Qed.

Lemma good_get_domains : forall fuel l acc, (length l < fuel)%nat -> good (get_domains fuel l acc).
Proof.
  induction fuel as [|f IH]; intros l acc Hf; [lia|].
  simpl. destruct l as [|x l']; [exact I|].
  destruct (get_domain_spec (S (length (x :: l'))) (x :: l') [] ltac:(lia)) as [G S].
  apply good_bind; [exact G|]. intros [d r] E. apply IH. apply S in E. simpl in *. lia.
Qed.
Lemma good_parse_domains : forall v, good (parse_domains v).
Proof. intros; unfold parse_domains; apply good_get_domains; lia. Qed.

(* ---- DhcpOptionType::decode ------------------------------------------------------ *)
Lemma good_parse_ip : forall v, good (parse_ip v).
Proof. intros; unfold parse_ip. destruct v as [|a [|b [|c [|d [|e r]]]]]; try exact I; try ne99; try (apply good_err; ne99). Qed.
Lemma good_parse_u8 : forall v, good (parse_u8 v).
Proof. intros; unfold parse_u8. destruct v as [|a [|b r]]; try exact I; try ne99; try (apply good_err; ne99). Qed.

Lemma good_decode_value : forall t v, bytes_ok v = true -> good (decode_value t v).
Proof.
  intros t v Hv. destruct t; simpl; try exact I;
    (apply good_bind; [ | intros; apply good_ok]).
  - apply good_parse_ip.
  - apply good_parse_iplist.
  - apply good_fold_i32; exact Hv.
  - apply good_parse_u8.
  - apply good_parse_u16; exact Hv.
  - apply good_parse_u32; exact Hv.
  - apply good_parse_u8.
  - apply good_parse_u16; exact Hv.
  - apply good_parse_u32; exact Hv.
  - apply good_parse_routes.
  - apply good_parse_domains.
Qed.

Lemma good_dhcp_option_decode : forall code v, bytes_ok v = true -> good (dhcp_option_decode code v).
Proof.
  intros code v Hv. unfold dhcp_option_decode. destruct (get_type code).
  - apply good_decode_value; exact Hv.
  - apply good_err; ne99.
Qed.

Lemma dhcp_option_decode_total : forall code v k, bytes_ok v = true -> dhcp_option_decode code v <> Panic k.
Proof. intros; apply good_no_panic, good_dhcp_option_decode; assumption. Qed.
Lemma dhcp_option_decode_no_fuel : forall code v, bytes_ok v = true -> dhcp_option_decode code v <> Err E_FUEL.
Proof. intros code v H. apply (good_no_fuel _ _ (good_dhcp_option_decode code v H)). Qed.

(* ---- log_options ------------------------------------------------------------------- *)
Definition opts_bytes (os : list (N * list N)) : bool := forallb (fun o => bytes_ok (snd o)) os.

Lemma good_log_opts : forall os, opts_bytes os = true -> good (log_opts os).
Proof.
  induction os as [|[c v] r IH]; intros H; simpl; [exact I|].
  simpl in H. apply andb_true_iff in H. destruct H as [Hv Hr].
  destruct ((c =? 53) || (c =? 55)); [apply IH; exact Hr|].
  pose proof (good_dhcp_option_decode c v Hv) as G.
  destruct (dhcp_option_decode c v); simpl in G; try contradiction;
    (apply good_bind; [apply IH; exact Hr | intros [? ?] _; apply good_ok]).
Qed.

Lemma log_options_total : forall m k, opts_bytes (d_options m) = true -> log_options_model m <> Panic k.
Proof. intros; apply good_no_panic, good_log_opts; assumption. Qed.

(* ---- composition with the whole-packet decoder (Model/DhcpCodec.v) ------------------- *)
Lemma get_u8_bytes : forall l b r, get_u8 l = Ok (b, r) -> bytes_ok l = true -> bytes_ok r = true.
Proof. intros l b r E H. apply get_u8_inv in E. subst. simpl in H. apply andb_true_iff in H. tauto. Qed.
Lemma get_bytes_bytes : forall n l p r, get_bytes n l = Ok (p, r) -> bytes_ok l = true ->
  bytes_ok p = true /\ bytes_ok r = true.
Proof.
  intros n l p r E H. unfold get_bytes in E. destruct (n <=? lenN l); [|discriminate].
  inversion E; subst. split; [apply bytes_ok_takeN | apply bytes_ok_dropN]; exact H.
Qed.
Lemma get_be_bytes : forall n l v r, get_be n l = Ok (v, r) -> bytes_ok l = true -> bytes_ok r = true.
Proof.
  intros n l v r E H. unfold get_be in E.
  destruct (get_bytes n l) as [[p r']| |] eqn:E1; simpl in E; try discriminate.
  inversion E; subst. eapply get_bytes_bytes; eassumption.
Qed.

Lemma opt_extend_bytes : forall acc code v,
  opts_bytes acc = true -> bytes_ok v = true -> opts_bytes (opt_extend acc code v) = true.
Proof.
  induction acc as [|[c w] r IH]; intros code v Ha Hv; simpl.
  - rewrite Hv; reflexivity.
  - simpl in Ha. apply andb_true_iff in Ha. destruct Ha as [Hw Hr].
    destruct (c =? code); simpl.
    + rewrite bytes_ok_app, Hw, Hv, Hr. reflexivity.
    + rewrite Hw. simpl. apply IH; assumption.
Qed.

Lemma parse_options_unfold : forall f x r acc,
  parse_options (S f) (x :: r) acc =
  if x =? 0 then parse_options f r acc
  else if x =? 255 then Ok acc
  else (do (len, r1) <- get_u8 r ; do (v, r2) <- get_bytes len r1 ; parse_options f r2 (opt_extend acc x v)).
Proof.
  intros f x r acc. destruct x as [|p]; [reflexivity|].
  do 8 (try (destruct p as [p|p|]; try reflexivity)).
Qed.

Lemma parse_options_bytes : forall fuel l acc os,
  bytes_ok l = true -> opts_bytes acc = true -> parse_options fuel l acc = Ok os -> opts_bytes os = true.
Proof.
  induction fuel as [|f IH]; intros l acc os Hl Ha H; [discriminate|].
  destruct l as [|x r]; [discriminate|].
  rewrite parse_options_unfold in H.
  simpl in Hl. apply andb_true_iff in Hl. destruct Hl as [_ Hr].
  destruct (x =? 0); [eapply IH; eassumption|].
  destruct (x =? 255); [inversion H; subst; exact Ha|].
  destruct (get_u8 r) as [[len r1]| |] eqn:E0; simpl in H; try discriminate.
  destruct (get_bytes len r1) as [[v r2]| |] eqn:E1; simpl in H; try discriminate.
  pose proof (get_u8_bytes _ _ _ E0 Hr) as H1.
  destruct (get_bytes_bytes _ _ _ _ E1 H1) as [Hv H2].
  eapply IH; [ | | exact H]; [exact H2 | apply opt_extend_bytes; assumption].
Qed.

Opaque parse_options.
Lemma decode_options_bytes : forall b m, bytes_ok b = true -> decode b = Ok m -> opts_bytes (d_options m) = true.
Proof.
  intros b m Hb H. unfold decode in H.
  repeat match goal with
  | H : obind (get_u8 ?l) _ = Ok _ |- _ =>
    let E := fresh "E" in destruct (get_u8 l) as [[? ?]| |] eqn:E; simpl in H; try discriminate;
    match goal with Hb : bytes_ok l = true |- _ => pose proof (get_u8_bytes _ _ _ E Hb) end
  | H : obind (get_be ?n ?l) _ = Ok _ |- _ =>
    let E := fresh "E" in destruct (get_be n l) as [[? ?]| |] eqn:E; simpl in H; try discriminate;
    match goal with Hb : bytes_ok l = true |- _ => pose proof (get_be_bytes _ _ _ _ E Hb) end
  | H : obind (get_bytes ?n ?l) _ = Ok _ |- _ =>
    let E := fresh "E" in destruct (get_bytes n l) as [[? ?]| |] eqn:E; simpl in H; try discriminate;
    match goal with Hb : bytes_ok l = true |- _ => destruct (get_bytes_bytes _ _ _ _ E Hb) end
  | H : (if ?c then _ else _) = Ok _ |- _ => destruct c; try discriminate
  end.
  match goal with H : obind (parse_options ?f ?l ?a) _ = Ok _ |- _ =>
    destruct (parse_options f l a) as [os| |] eqn:EP; simpl in H; try discriminate end.
  inversion H; subst; simpl.
  eapply parse_options_bytes; [ | | exact EP]; [assumption | reflexivity].
Qed.

Transparent parse_options.

(* the whole-packet decoder itself never panics *)
Lemma np_get_u8 : forall l, nopanic (get_u8 l).
Proof. destruct l; exact I. Qed.
Lemma np_get_bytes : forall n l, nopanic (get_bytes n l).
Proof. intros; unfold get_bytes; destruct (n <=? lenN l); exact I. Qed.
Lemma np_get_be : forall n l, nopanic (get_be n l).
Proof. intros; unfold get_be. apply np_bind; [apply np_get_bytes | intros [? ?] _; exact I]. Qed.

Lemma np_parse_options : forall fuel l acc, nopanic (parse_options fuel l acc).
Proof.
  induction fuel as [|f IH]; intros l acc; [exact I|].
  destruct l as [|x r]; [exact I|].
  rewrite parse_options_unfold.
  destruct (x =? 0); [apply IH|]. destruct (x =? 255); [exact I|].
  apply np_bind; [apply np_get_u8 | intros [len r1] _].
  apply np_bind; [apply np_get_bytes | intros [v r2] _]. apply IH.
Qed.

Lemma np_decode : forall b, nopanic (decode b).
Proof.
  intros b. unfold decode.
  repeat first
  [ (apply np_bind; [ first [apply np_get_u8 | apply np_get_be | apply np_get_bytes] | intros [? ?] _ ])
  | match goal with |- nopanic (if ?c then _ else _) => destruct c; [exact I|] end ].
  apply np_bind; [apply np_parse_options | intros; exact I].
Qed.

Lemma decode_total : forall b k, decode b <> Panic k.
Proof. intros; apply np_no_panic, np_decode. Qed.

Lemma dhcp_recv_path_total : forall b k, bytes_ok b = true -> dhcp_recv_path b <> Panic k.
Proof.
  intros b k Hb. unfold dhcp_recv_path.
  pose proof (np_decode b) as D.
  destruct (decode b) as [m| |] eqn:E; simpl in *; try discriminate; try contradiction.
  pose proof (decode_options_bytes b m Hb E) as Ho.
  pose proof (good_log_opts _ Ho) as G. unfold log_options_model.
  destruct (log_opts (d_options m)) as [[n f]| |]; simpl in *; try contradiction; try discriminate.
  unfold to_array. destruct (6 <=? lenN (d_chaddr m)); simpl; discriminate.
Qed.

(* ---- what the repaired Ipv4Subnet computes --------------------------------------------- *)
Lemma subnet_new_total : forall addr plen k, subnet_new addr plen <> Panic k.
Proof. intros; apply good_no_panic, good_subnet_new. Qed.

Lemma netmask_spec : forall plen, plen <= 32 -> netmask plen = Ok (4294967296 - 2 ^ (32 - plen)).
Proof.
  intros plen H.
  assert (A : forall n : nat, (n <= 32)%nat -> netmask (N.of_nat n) = Ok (4294967296 - 2 ^ (32 - N.of_nat n))).
  { intros n Hn. do 33 (destruct n as [|n]; [vm_compute; reflexivity|]). lia. }
  rewrite <- (N2Nat.id plen). apply A. lia.
Qed.

Lemma subnet_new_spec : forall addr plen,
  subnet_new addr plen =
  if (plen <=? 32) && (N.land addr (2 ^ (32 - plen) - 1) =? 0) then Ok (addr, plen) else Err E_NONE.
Proof.
  intros addr plen. unfold subnet_new. destruct (32 <? plen) eqn:E.
  - apply N.ltb_lt in E. assert (F : plen <=? 32 = false) by (apply N.leb_gt; exact E). rewrite F. reflexivity.
  - apply N.ltb_ge in E. assert (F : plen <=? 32 = true) by (apply N.leb_le; exact E). rewrite F.
    rewrite (netmask_spec plen E). cbv beta iota delta [obind].
    assert (P : 2 ^ (32 - plen) <= 4294967296) by (change 4294967296 with (2 ^ 32); apply N.pow_le_mono_r; lia).
    assert (Q : 0 < 2 ^ (32 - plen)) by (apply N.neq_0_lt_0, N.pow_nonzero; discriminate).
    replace (4294967295 - (4294967296 - 2 ^ (32 - plen))) with (2 ^ (32 - plen) - 1) by lia.
    rewrite andb_true_l. reflexivity.
Qed.

Lemma int_folds_total : forall v k, bytes_ok v = true ->
  parse_u16 v <> Panic k /\ parse_u32 v <> Panic k /\ parse_u64 v <> Panic k /\ parse_i32 v <> Panic k.
Proof.
  intros v k H. repeat split; apply good_no_panic.
  - apply good_parse_u16; exact H.
  - apply good_parse_u32; exact H.
  - apply good_parse_u64; exact H.
  - apply good_fold_i32; exact H.
Qed.

(* Proofs about Model/Icmp6Parse.v: the decoder model never aborts. *)
From Erbium Require Import Lib.Base Model.Icmp6Parse.

(* ---- "does not panic" -------------------------------------------------- *)
Definition np {A} (o : outcome A) : Prop := forall k, o <> Panic k.

Lemma np_ok {A} (a : A) : np (Ok a).
Proof. intros k; discriminate. Qed.
Lemma np_err {A} (e : N) : np (@Err A e).
Proof. intros k; discriminate. Qed.
Lemma np_bind {A B} (o : outcome A) (f : A -> outcome B) :
  np o -> (forall a, o = Ok a -> np (f a)) -> np (obind o f).
Proof.
  intros H1 H2. destruct o as [a|e|k]; cbn [obind].
  - apply H2; reflexivity.
  - apply np_err.
  - exfalso; eapply H1; reflexivity.
Qed.

(* ---- lists ------------------------------------------------------------- *)
Lemma lenN_cons {A} (x : A) l : lenN (x :: l) = lenN l + 1.
Proof. unfold lenN. cbn [length]. rewrite Nat2N.inj_succ. lia. Qed.
Lemma lenN_app {A} (a b : list A) : lenN (a ++ b) = lenN a + lenN b.
Proof. unfold lenN. rewrite app_length. lia. Qed.
Lemma lenN_takeN {A} n (l : list A) : n <= lenN l -> lenN (takeN n l) = n.
Proof. unfold lenN, takeN. intros H. rewrite firstn_length_le by lia. apply N2Nat.id. Qed.
Lemma lenN_dropN {A} n (l : list A) : lenN (dropN n l) = lenN l - n.
Proof. unfold lenN, dropN. rewrite skipn_length. lia. Qed.
Lemma nthN_lt {A} (l : list A) i : i < lenN l -> exists x, nthN l i = Some x.
Proof.
  unfold nthN, lenN. intros H. destruct (nth_error l (N.to_nat i)) eqn:E; [eauto|].
  apply nth_error_None in E. lia.
Qed.
Lemma nthN_bytes_ok l i x : bytes_ok l = true -> nthN l i = Some x -> x < 256.
Proof.
  unfold bytes_ok, nthN. intros H E. apply nth_error_In in E.
  rewrite forallb_forall in H. apply H in E. unfold byte_ok in E. apply N.ltb_lt in E. exact E.
Qed.

(* ---- checked arithmetic ------------------------------------------------- *)
Lemma pow2_USZ : pow2 USZ = 18446744073709551616.
Proof. reflexivity. Qed.
Lemma add_chk_ok w a b : a + b < pow2 w -> add_chk w a b = Ok (a + b).
Proof. intros H. unfold add_chk. apply N.ltb_lt in H. rewrite H. reflexivity. Qed.
Lemma mul_chk_ok w a b : a * b < pow2 w -> mul_chk w a b = Ok (a * b).
Proof. intros H. unfold mul_chk. apply N.ltb_lt in H. rewrite H. reflexivity. Qed.
Lemma sub_chk_ok a b : b <= a -> sub_chk a b = Ok (a - b).
Proof. intros H. unfold sub_chk. apply N.leb_le in H. rewrite H. reflexivity. Qed.

(* ---- slices ------------------------------------------------------------- *)
Lemma index_chk_ok l i : i < lenN l -> exists x, index_chk l i = Ok x.
Proof. intros H. destruct (nthN_lt l i H) as [x E]. exists x. unfold index_chk. rewrite E. reflexivity. Qed.
Lemma slice_len_chk_ok len lo hi l : lo <= hi -> hi <= len -> len = lenN l ->
  exists a, slice_len_chk len lo hi l = Ok a /\ lenN a = hi - lo.
Proof.
  intros H1 H2 H3. unfold slice_len_chk.
  destruct (hi <? lo) eqn:E1. { apply N.ltb_lt in E1; lia. }
  destruct (len <? hi) eqn:E2. { apply N.ltb_lt in E2; lia. }
  eexists; split; [reflexivity|]. apply lenN_takeN. rewrite lenN_dropN. lia.
Qed.
Lemma slice_chk_ok lo hi l : lo <= hi -> hi <= lenN l ->
  exists a, slice_chk lo hi l = Ok a /\ lenN a = hi - lo.
Proof. intros. unfold slice_chk. apply slice_len_chk_ok; auto. Qed.
Lemma slice_incl_chk_ok lo hi l :
  lo <= hi + 1 -> hi + 1 <= lenN l -> lenN l < 9223372036854775808 ->
  exists a, slice_incl_chk lo hi l = Ok a /\ lenN a = hi + 1 - lo.
Proof.
  intros. unfold slice_incl_chk. rewrite add_chk_ok by (rewrite pow2_USZ; lia).
  cbn [obind]. apply slice_chk_ok; lia.
Qed.
Lemma slice_from_chk_ok lo l : lo <= lenN l ->
  exists a, slice_from_chk lo l = Ok a /\ lenN a = lenN l - lo.
Proof. intros. unfold slice_from_chk. apply slice_chk_ok; lia. Qed.
Lemma to_array_ok n l : lenN l = n -> to_array n l = Ok l.
Proof. intros H. unfold to_array. apply N.eqb_eq in H. rewrite H. reflexivity. Qed.

(* ---- rposition, chunks_exact ------------------------------------------- *)
Lemma rposition_from_bound l : forall i acc p,
  rposition_nz_from i acc l = Some p -> acc = Some p \/ (i <= p /\ p < i + lenN l).
Proof.
  induction l as [|b r IH]; intros i acc p H; cbn [rposition_nz_from] in H.
  - left; exact H.
  - apply IH in H. rewrite lenN_cons. destruct H as [H|H].
    + destruct (b =? 0); [left; exact H|]. right. injection H as <-. lia.
    + right. lia.
Qed.
Lemma rposition_nz_bound l p : rposition_nz l = Some p -> p < lenN l.
Proof.
  unfold rposition_nz. intros H. apply rposition_from_bound in H.
  destruct H as [H|H]; [discriminate|lia].
Qed.

Lemma chunks_exact_len f n : forall l, Forall (fun c => lenN c = n) (chunks_exact f n l).
Proof.
  induction f as [|f IH]; intros l; cbn [chunks_exact]; [constructor|].
  destruct (n <=? lenN l) eqn:E; [|constructor].
  constructor; [|apply IH]. apply lenN_takeN. apply N.leb_le; exact E.
Qed.
Lemma mapM_to_array_ok n cs : Forall (fun c => lenN c = n) cs ->
  exists r, mapM (to_array n) cs = Ok r.
Proof.
  induction 1 as [|c cs Hc _ IH]; cbn [mapM]; [eauto|].
  rewrite (to_array_ok n c Hc). cbn [obind]. destruct IH as [r ->]. cbn [obind]. eauto.
Qed.

(* ---- one option body ---------------------------------------------------- *)
Lemma nd_option_np ty v :
  6 <= lenN v -> lenN v < 9223372036854775808 -> np (nd_option ty v).
Proof.
  intros Hlo Hhi. unfold nd_option.
  destruct (ty =? 1); [apply np_ok|].
  destruct (ty =? 37).
  { assert (T : forall a : list N,
               np (if utf8_ok a then Ok (Some (CaptivePortal a)) else Err E_ENCODING)).
    { intros a. destruct (utf8_ok a); [apply np_ok|apply np_err]. }
    destruct (rposition_nz v) as [p|] eqn:E.
    - apply rposition_nz_bound in E.
      rewrite add_chk_ok by (rewrite pow2_USZ; lia). cbn [obind].
      destruct (slice_chk_ok 0 (p + 1) v) as (a & -> & _); [lia|lia|]. cbn [obind]. apply T.
    - cbn [obind].
      destruct (slice_chk_ok 0 0 v) as (a & -> & _); [lia|lia|]. cbn [obind]. apply T. }
  destruct (ty =? 38).
  { destruct (lenN v =? 14) eqn:E; cbn [negb]; [|apply np_err]. apply N.eqb_eq in E.
    destruct (slice_incl_chk_ok 0 1 v) as (a & -> & La); [lia|lia|lia|]. cbn [obind].
    rewrite (to_array_ok 2 a) by lia. cbn [obind].
    destruct (pref64_len (N.land (be_decode a) 7)) as [plen|]; [|apply np_ok].
    destruct (slice_from_chk_ok 2 v) as (t & -> & Lt); [lia|]. cbn [obind].
    rewrite to_array_ok.
    - cbn [obind]. apply np_ok.
    - rewrite lenN_app. change (lenN [0; 0; 0; 0]) with 4. lia. }
  destruct (ty =? 5).
  { destruct (lenN v =? 6) eqn:E; cbn [negb]; [|apply np_err]. apply N.eqb_eq in E.
    destruct (slice_incl_chk_ok 2 5 v) as (a & -> & La); [lia|lia|lia|]. cbn [obind].
    rewrite (to_array_ok 4 a) by lia. cbn [obind]. apply np_ok. }
  destruct (ty =? 25).
  { destruct (slice_incl_chk_ok 2 5 v) as (a & -> & La); [lia|lia|lia|]. cbn [obind].
    rewrite (to_array_ok 4 a) by lia. cbn [obind].
    destruct (slice_from_chk_ok 6 v) as (t & -> & Lt); [lia|]. cbn [obind].
    destruct (mapM_to_array_ok 16 _ (chunks_exact_len (length t) 16 t)) as [r ->].
    cbn [obind]. apply np_ok. }
  destruct (ty =? 3).
  { destruct (lenN v =? 30) eqn:E; cbn [negb]; [|apply np_err]. apply N.eqb_eq in E.
    destruct (index_chk_ok v 0) as [x0 ->]; [lia|]. cbn [obind].
    destruct (index_chk_ok v 1) as [x1 ->]; [lia|]. cbn [obind].
    destruct (slice_chk_ok 2 6 v) as (a1 & -> & L1); [lia|lia|]. cbn [obind].
    rewrite (to_array_ok 4 a1) by lia. cbn [obind].
    destruct (slice_chk_ok 6 10 v) as (a2 & -> & L2); [lia|lia|]. cbn [obind].
    rewrite (to_array_ok 4 a2) by lia. cbn [obind].
    destruct (slice_chk_ok 14 30 v) as (a3 & -> & L3); [lia|lia|]. cbn [obind].
    rewrite (to_array_ok 16 a3) by lia. cbn [obind]. apply np_ok. }
  apply np_ok.
Qed.

(* ---- the cursor --------------------------------------------------------- *)
Definition wf (s : buffer) : Prop :=
  b_len s = lenN (b_buf s) /\ b_off s <= b_len s /\
  b_len s < 9223372036854775808 /\ bytes_ok (b_buf s) = true.

Lemma wf_seek s o : wf s -> o <= b_len s -> wf (buf_seek s o).
Proof. intros (H1 & H2 & H3 & H4) H. unfold wf, buf_seek; cbn. auto. Qed.

Lemma get_u8_spec s : wf s ->
  get_u8 s = Ok None \/
  exists x s', get_u8 s = Ok (Some (x, s')) /\ x < 256 /\ wf s' /\
               b_off s' = b_off s + 1 /\ b_len s' = b_len s /\ b_buf s' = b_buf s.
Proof.
  intros W. pose proof W as (Hl & Ho & Hm & Hb). unfold get_u8.
  destruct (b_off s <? b_len s) eqn:E; [|left; reflexivity].
  apply N.ltb_lt in E. right.
  destruct (nthN_lt (b_buf s) (b_off s)) as [x Ex]; [lia|].
  exists x, (buf_seek s (b_off s + 1)). unfold index_chk. rewrite Ex. cbn [obind].
  rewrite add_chk_ok by (rewrite pow2_USZ; lia). cbn [obind].
  split; [reflexivity|]. split; [eapply nthN_bytes_ok; eauto|].
  split; [apply wf_seek; [exact W|lia]|]. cbn. auto.
Qed.

Lemma get_bytes_spec n s : wf s -> n < 4294967296 ->
  get_bytes n s = Ok None \/
  exists v s', get_bytes n s = Ok (Some (v, s')) /\ lenN v = n /\ wf s' /\
               b_off s' = b_off s + n /\ b_len s' = b_len s /\ b_buf s' = b_buf s.
Proof.
  intros W Hn. pose proof W as (Hl & Ho & Hm & Hb). unfold get_bytes.
  rewrite add_chk_ok by (rewrite pow2_USZ; lia). cbn [obind].
  destruct (b_off s + n <=? b_len s) eqn:E; [|left; reflexivity].
  apply N.leb_le in E. right.
  destruct (slice_len_chk_ok (b_len s) (b_off s) (b_off s + n) (b_buf s))
    as (v & -> & Lv); [lia|lia|exact Hl|].
  cbn [obind]. exists v, (buf_seek s (b_off s + n)).
  split; [reflexivity|]. split; [lia|].
  split; [apply wf_seek; [exact W|lia]|]. cbn. auto.
Qed.

Lemma get_be_spec n s : wf s -> n < 4294967296 ->
  get_be n s = Ok None \/
  exists x s', get_be n s = Ok (Some (x, s')) /\ wf s' /\
               b_off s' = b_off s + n /\ b_len s' = b_len s /\ b_buf s' = b_buf s.
Proof.
  intros W Hn. unfold get_be.
  destruct (get_bytes_spec n s W Hn) as [->|(v & s' & -> & Lv & R)]; cbn [obind].
  - left; reflexivity.
  - right. rewrite (to_array_ok n v Lv). cbn [obind]. eauto.
Qed.

(* one `.ok_or(Error::Truncated)?` step on the goal [np (obind (ok_or _ (get.. s)) _)] *)
Ltac step_u8 W x s' Hx W' Ho Hl Hb :=
  let H := fresh "H" in
  match goal with
  | |- np (obind (ok_or _ (get_u8 ?s)) _) =>
    destruct (get_u8_spec s W) as [H|(x & s' & H & Hx & W' & Ho & Hl & Hb)];
    rewrite H; unfold ok_or at 1; cbn [obind]; [apply np_err|]
  end.
Ltac step_be W x s' W' Ho Hl Hb :=
  let H := fresh "H" in
  match goal with
  | |- np (obind (ok_or _ (get_be ?n ?s)) _) =>
    destruct (get_be_spec n s W) as [H|(x & s' & H & W' & Ho & Hl & Hb)];
    [ lia | | ]; rewrite H; unfold ok_or at 1; cbn [obind]; [apply np_err|]
  end.

(* ---- the options loop ---------------------------------------------------- *)
Lemma parse_options_np : forall fuel s,
  wf s -> b_len s - b_off s < N.of_nat fuel -> np (parse_options fuel s).
Proof.
  induction fuel as [|f IH]; intros s W Hf.
  - exfalso. change (N.of_nat 0) with 0 in Hf. lia.
  - rewrite Nat2N.inj_succ in Hf. cbn [parse_options]. unfold remaining.
    pose proof W as (Hl & Ho & Hm & Hb).
    rewrite sub_chk_ok by exact Ho. cbn [obind].
    destruct (0 <? b_len s - b_off s) eqn:E; [|apply np_ok].
    step_u8 W ty s1 Hty W1 Ho1 Hl1 Hb1.
    step_u8 W1 l s2 Hlb W2 Ho2 Hl2 Hb2.
    destruct (l =? 0) eqn:El; [apply np_err|]. apply N.eqb_neq in El.
    rewrite mul_chk_ok by (rewrite pow2_USZ; lia). cbn [obind].
    rewrite sub_chk_ok by lia. cbn [obind].
    destruct (get_bytes_spec (l * 8 - 2) s2 W2) as [HB|(v & s3 & HB & Lv & W3 & Ho3 & Hl3 & Hb3)];
      [lia| |]; rewrite HB; unfold ok_or at 1; cbn [obind]; [apply np_err|].
    pose proof W3 as (_ & Ho3' & _ & _).
    apply np_bind; [apply nd_option_np; lia|]. intros o _.
    apply np_bind; [apply IH; [exact W3|lia]|]. intros rest _. apply np_ok.
Qed.

Lemma parse_options_fuel_np s : wf s -> np (parse_options (options_fuel s) s).
Proof.
  intros W. apply parse_options_np; [exact W|].
  destruct W as (Hl & _). unfold options_fuel. rewrite Nat2N.inj_succ.
  unfold lenN in Hl. lia.
Qed.

Lemma parse_nd_rtr_solicit_np s : wf s -> np (parse_nd_rtr_solicit s).
Proof.
  intros W. unfold parse_nd_rtr_solicit.
  step_be W r s1 W1 Ho1 Hl1 Hb1.
  apply np_bind; [apply parse_options_fuel_np; exact W1|]. intros; apply np_ok.
Qed.

Lemma parse_nd_rtr_advert_np s : wf s -> np (parse_nd_rtr_advert s).
Proof.
  intros W. unfold parse_nd_rtr_advert.
  step_u8 W hop s1 Hx1 W1 Ho1 Hl1 Hb1.
  step_u8 W1 mo s2 Hx2 W2 Ho2 Hl2 Hb2.
  step_be W2 ltm s3 W3 Ho3 Hl3 Hb3.
  step_be W3 re s4 W4 Ho4 Hl4 Hb4.
  step_be W4 rt s5 W5 Ho5 Hl5 Hb5.
  apply np_bind; [apply parse_options_fuel_np; exact W5|]. intros; apply np_ok.
Qed.

Lemma wf_buf_new b : slice_u8_ok b = true -> wf (buf_new b).
Proof.
  unfold slice_u8_ok. intros H. apply andb_true_iff in H. destruct H as [Hb Hl].
  apply N.ltb_lt in Hl. change (2 ^ 63) with 9223372036854775808 in Hl.
  unfold wf, buf_new; cbn. repeat split; [lia|exact Hl|exact Hb].
Qed.

(* ---- parse --------------------------------------------------------------- *)
Lemma icmp6_parse_np b : slice_u8_ok b = true -> np (icmp6_parse b).
Proof.
  intros H. pose proof (wf_buf_new b H) as W. unfold icmp6_parse.
  destruct (lenN b <? 8); [apply np_err|]. cbv zeta.
  step_u8 W ty s1 Hx1 W1 Ho1 Hl1 Hb1.
  step_u8 W1 code s2 Hx2 W2 Ho2 Hl2 Hb2.
  step_be W2 ck s3 W3 Ho3 Hl3 Hb3.
  destruct (ty =? 1); [apply np_ok|].
  destruct ((ty =? 133) && (code =? 0)); [apply parse_nd_rtr_solicit_np; exact W3|].
  destruct ((ty =? 134) && (code =? 0)); [apply parse_nd_rtr_advert_np; exact W3|].
  apply np_ok.
Qed.

(* The statement of property C05 (ICMPv6 part).  The hypothesis is what the
   type `&[u8]` guarantees: octets, and no more than isize::MAX of them. *)
Lemma icmp6_parse_total : forall (b : list N) (k : panic_kind),
  slice_u8_ok b = true -> icmp6_parse b <> Panic k.
Proof. intros b k H. apply icmp6_parse_np. exact H. Qed.

Lemma icmp6_parse_short b : lenN b < 8 -> icmp6_parse b = Err 1.
Proof. intros H. unfold icmp6_parse. apply N.ltb_lt in H. rewrite H. reflexivity. Qed.

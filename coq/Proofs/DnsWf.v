(* Everything the DNS decoder returns is well-formed (C14_decoded_is_wf). *)
From Erbium Require Import Lib.Base Model.DnsName Model.DnsCodec Proofs.DnsName Proofs.DnsCodec.

Ltac btrue H :=
  repeat match goal with
         | Hx : (_ && _) = true |- _ => apply andb_true_iff in Hx as [? ?]
         end.

Definition cur_ok (c : cur) : Prop := bytes_ok (fst c) = true.

Lemma bytes_ok_cons x (l : list N) : bytes_ok (x :: l) = true <-> x < 256 /\ bytes_ok l = true.
Proof.
  unfold bytes_ok, byte_ok. simpl. rewrite andb_true_iff, N.ltb_lt. tauto.
Qed.

Lemma get_u8_wf c x c' : cur_ok c -> get_u8 c = Ok (x, c') -> x < 256 /\ cur_ok c'.
Proof.
  unfold cur_ok, get_u8. destruct c as [[|a r] off]; cbn [fst snd]; intros H E; [discriminate|].
  inversion E; subst. apply bytes_ok_cons in H. exact H.
Qed.

Lemma get_u16_wf c x c' : cur_ok c -> get_u16 c = Ok (x, c') -> x < 65536 /\ cur_ok c'.
Proof.
  unfold cur_ok, get_u16. destruct c as [[|a [|b r]] off]; cbn [fst snd]; intros H E; try discriminate.
  inversion E; subst. apply bytes_ok_cons in H as [Ha H]. apply bytes_ok_cons in H as [Hb H].
  split; [lia|exact H].
Qed.

Lemma get_u32_wf c x c' : cur_ok c -> get_u32 c = Ok (x, c') -> x < 4294967296 /\ cur_ok c'.
Proof.
  unfold cur_ok, get_u32. destruct c as [[|a [|b [|d [|e r]]]] off]; cbn [fst snd]; intros H E; try discriminate.
  inversion E; subst. apply bytes_ok_cons in H as [Ha H]. apply bytes_ok_cons in H as [Hb H].
  apply bytes_ok_cons in H as [Hd H]. apply bytes_ok_cons in H as [He H].
  split; [lia|exact H].
Qed.

Lemma get_bytes_wf n c a c' : cur_ok c -> get_bytes n c = Ok (a, c') ->
  bytes_ok a = true /\ lenN a = n /\ cur_ok c'.
Proof.
  unfold cur_ok, get_bytes. destruct (take_exact (N.to_nat n) (fst c)) as [[x r]|] eqn:E; intros H E2; [|discriminate].
  inversion E2; subst. destruct (take_exact_bytes_ok _ _ _ _ E H) as [H1 H2].
  apply take_exact_spec in E as [_ E]. split; auto. split; auto. unfold lenN. rewrite E. lia.
Qed.

Lemma get_string_wf c s c' : cur_ok c -> get_string c = Ok (s, c') -> wf_str s = true /\ cur_ok c'.
Proof.
  unfold get_string. intros H E. apply obind_ok in E as ([n c1] & E1 & E).
  destruct (get_u8_wf _ _ _ H E1) as [Hn H1]. destruct (get_bytes_wf _ _ _ _ H1 E) as (Hb & Hl & H2).
  split; auto. unfold wf_str. rewrite Hb, Hl. replace (n <? 256) with true by (symmetry; apply N.ltb_lt; lia). reflexivity.
Qed.

Lemma get_name_wf B c n c' : bytes_ok B = true -> cur_ok c -> get_name B c = Ok (n, c') ->
  wf_name n = true /\ cur_ok c'.
Proof.
  unfold get_name, cur_ok. generalize NAME_FUEL. intros fuel HB Hc E.
  apply obind_ok in E as ([n' nxt] & E1 & E). inversion E; subst. cbn [fst].
  assert (H0 : 0 + 1 <= 255) by lia.
  destruct (get_domain_into_wf B HB _ _ _ _ _ _ _ Hc H0 E1) as [H1 H2].
  split; [|now apply bytes_ok_dropN].
  unfold wf_name. rewrite H1. simpl. apply N.leb_le. lia.
Qed.

(* EDNS options *)
Lemma get_options_wf : forall fuel b o, bytes_ok b = true -> get_options fuel b = Ok o ->
  forallb (fun c => (fst c <? 65536) && (lenN (snd c) <? 65536) && bytes_ok (snd c)) o = true /\ enc_opts o = b.
Proof.
  induction fuel as [|f IH]; intros b o Hb E; [discriminate|].
  simpl in E. destruct b as [|c1 [|c2 [|l1 [|l2 r]]]]; try discriminate.
  - inversion E; subst. auto.
  - apply bytes_ok_cons in Hb as [H1 Hb]. apply bytes_ok_cons in Hb as [H2 Hb].
    apply bytes_ok_cons in Hb as [H3 Hb]. apply bytes_ok_cons in Hb as [H4 Hb].
    destruct (take_exact (N.to_nat (l1 * 256 + l2)) r) as [[d r']|] eqn:Et; [|discriminate].
    apply obind_ok in E as (os & E1 & E). inversion E; subst.
    destruct (take_exact_bytes_ok _ _ _ _ Et Hb) as [Hd Hr'].
    apply take_exact_spec in Et as [-> Hl].
    destruct (IH _ _ Hr' E1) as [I1 I2].
    assert (Hdl : lenN d = l1 * 256 + l2) by (unfold lenN; rewrite Hl; lia).
    split.
    + simpl. rewrite I1, Hd, Hdl.
      replace (c1 * 256 + c2 <? 65536) with true by (symmetry; apply N.ltb_lt; lia).
      replace (l1 * 256 + l2 <? 65536) with true by (symmetry; apply N.ltb_lt; lia). reflexivity.
    + change (enc_opts ((c1 * 256 + c2, d) :: os)) with ((be16 (c1 * 256 + c2) ++ be16 (lenN d) ++ d) ++ enc_opts os).
      rewrite I2, Hdl. unfold be16. cbn [app].
      assert (Hx : forall a b, a < 256 -> b < 256 -> ((a * 256 + b) / 256) mod 256 = a /\ (a * 256 + b) mod 256 = b).
      { intros a b Ha Hb'. rewrite (N.add_comm (a * 256) b).
        rewrite N.mod_add by lia. rewrite N.div_add by lia.
        rewrite (N.div_small b 256) by lia. rewrite (N.mod_small b 256) by lia.
        split; [apply N.mod_small; lia|reflexivity]. }
      destruct (Hx c1 c2 H1 H2) as [-> ->]. destruct (Hx l1 l2 H3 H4) as [-> ->].
      rewrite <- ?app_assoc. reflexivity.
Qed.

Ltac gname HB H E n c Wn Hc :=
  let En := fresh "En" in
  apply obind_ok in E as ([n c] & En & E); destruct (get_name_wf _ _ _ _ HB H En) as [Wn Hc].
Ltac g16 H E x c Wx Hc :=
  let Ex := fresh "Ex" in
  apply obind_ok in E as ([x c] & Ex & E); destruct (get_u16_wf _ _ _ H Ex) as [Wx Hc].
Ltac g32 H E x c Wx Hc :=
  let Ex := fresh "Ex" in
  apply obind_ok in E as ([x c] & Ex & E); destruct (get_u32_wf _ _ _ H Ex) as [Wx Hc].
Ltac gstr H E x c Wx Hc :=
  let Ex := fresh "Ex" in
  apply obind_ok in E as ([x c] & Ex & E); destruct (get_string_wf _ _ _ H Ex) as [Wx Hc].

Lemma ltb_true a b : a < b -> (a <? b) = true.
Proof. intros. now apply N.ltb_lt. Qed.

Lemma get_rdata_wf B ty c d c' : bytes_ok B = true -> cur_ok c -> get_rdata B ty c = Ok (d, c') ->
  wf_rdata d = true /\ kind_type_ok ty d = true /\ cur_ok c'.
Proof.
  intros HB H E. unfold get_rdata in E. g16 H E rdlen c1 Wl H1.
  destruct (ty =? T_CNAME) eqn:T1.
  { gname HB H1 E n c2 Wn H2. inversion E; subst. simpl. rewrite Wn, T1. auto. }
  destruct (ty =? T_NS) eqn:T2.
  { gname HB H1 E n c2 Wn H2. inversion E; subst. simpl. rewrite Wn, T2. auto. }
  destruct (ty =? T_PTR) eqn:T3.
  { gname HB H1 E n c2 Wn H2. inversion E; subst. simpl. rewrite Wn, T3. auto. }
  destruct (ty =? T_AFSDB) eqn:T4.
  { g16 H1 E p c2 Wp H2. gname HB H2 E n c3 Wn H3. inversion E; subst. simpl.
    unfold w16. rewrite Wn, T4, (ltb_true _ _ Wp). auto. }
  destruct (ty =? T_RP) eqn:T5.
  { gname HB H1 E n c2 Wn H2. gname HB H2 E n2 c3 Wn2 H3. inversion E; subst. simpl. rewrite Wn, Wn2, T5. auto. }
  destruct (ty =? T_RT) eqn:T6.
  { g16 H1 E p c2 Wp H2. gname HB H2 E n c3 Wn H3. inversion E; subst. simpl.
    unfold w16. rewrite Wn, T6, (ltb_true _ _ Wp). auto. }
  destruct (ty =? T_MX) eqn:T7.
  { g16 H1 E p c2 Wp H2. gname HB H2 E n c3 Wn H3. inversion E; subst. simpl.
    unfold w16. rewrite Wn, T7, (ltb_true _ _ Wp). auto. }
  destruct (ty =? T_NAPTR) eqn:T8.
  { g16 H1 E o c2 Wo H2. g16 H2 E p c3 Wp H3. gstr H3 E f c4 Wf H4. gstr H4 E s c5 Ws H5. gstr H5 E r c6 Wr H6.
    gname HB H6 E n c7 Wn H7. inversion E; subst. simpl.
    unfold w16. rewrite Wn, T8, Wf, Ws, Wr, (ltb_true _ _ Wo), (ltb_true _ _ Wp). auto. }
  destruct (ty =? T_OPT) eqn:T9.
  { apply obind_ok in E as ([b c2] & Eb & E). destruct (get_bytes_wf _ _ _ _ H1 Eb) as (Wb & Lb & H2).
    apply obind_ok in E as (os & Eo & E). inversion E; subst.
    destruct (get_options_wf _ _ _ Wb Eo) as [Wo Eq]. simpl. unfold wf_opts. rewrite Wo, Eq, T9.
    rewrite (ltb_true _ _ Wl). auto. }
  destruct (ty =? T_SOA) eqn:T10.
  { gname HB H1 E n c2 Wn H2. gname HB H2 E n2 c3 Wn2 H3.
    g32 H3 E s c4 Ws H4. g32 H4 E rf c5 Wrf H5. g32 H5 E rt c6 Wrt H6. g32 H6 E e c7 We H7. g32 H7 E mi c8 Wmi H8.
    inversion E; subst. simpl. unfold w32.
    rewrite Wn, Wn2, T10, (ltb_true _ _ Ws), (ltb_true _ _ Wrf), (ltb_true _ _ Wrt), (ltb_true _ _ We), (ltb_true _ _ Wmi). auto. }
  apply obind_ok in E as ([b c2] & Eb & E). destruct (get_bytes_wf _ _ _ _ H1 Eb) as (Wb & Lb & H2).
  inversion E; subst. cbn [wf_rdata kind_type_ok existsb]. rewrite Wb, (ltb_true _ _ Wl).
  rewrite T1, T7, T2, T3, T10, T9, T4, T5, T6, T8. auto.
Qed.

Lemma get_rr_wf B c r c' : bytes_ok B = true -> cur_ok c -> get_rr B c = Ok (r, c') ->
  wf_rr r = true /\ cur_ok c'.
Proof.
  intros HB H. unfold get_rr. destruct (get_name B c) as [[n c1]| |] eqn:En; cbn [obind]; try discriminate.
  intros E. destruct (get_name_wf B c n c1 HB H En) as [Wn H1]. g16 H1 E ty c2 Wt H2. g16 H2 E cl c3 Wc H3. g32 H3 E ttl c4 Wtl H4.
  apply obind_ok in E as ([d c5] & Ed & E). destruct (get_rdata_wf _ _ _ _ _ HB H4 Ed) as (Wd & Wk & H5).
  inversion E; subst. split; auto. unfold wf_rr, w16, w32. cbn [r_name r_class r_type r_ttl r_data].
  rewrite Wn, Wd, Wk, (ltb_true _ _ Wt), (ltb_true _ _ Wc), (ltb_true _ _ Wtl). reflexivity.
Qed.

Lemma get_rrs_wf B trunc : bytes_ok B = true -> forall cnt c rs c', cur_ok c ->
  get_rrs B trunc cnt c = Ok (rs, c') -> forallb wf_rr rs = true /\ (length rs <= cnt)%nat /\ cur_ok c'.
Proof.
  intros HB. induction cnt as [|k IH]; intros c rs c' H E; simpl in E.
  - inversion E; subst. simpl. auto.
  - destruct (fst c) as [|x l] eqn:Ef.
    + destruct trunc; [|discriminate]. inversion E; subst. simpl. split; auto. split; [lia|auto].
    + apply obind_ok in E as ([r c1] & Er & E). destruct (get_rr_wf _ _ _ _ HB H Er) as [Wr H1].
      apply obind_ok in E as ([rs' c2] & Ers & E). destruct (IH _ _ _ H1 Ers) as (Wrs & L & H2).
      inversion E; subst. simpl. rewrite Wr, Wrs. split; auto. split; [lia|auto].
Qed.

(* ---- the whole message -------------------------------------------------------------- *)
Lemma filter_no_opt (l : list rr) :
  existsb (fun r => r_type r =? T_OPT) (filter (fun r => negb (r_type r =? T_OPT)) l) = false.
Proof.
  induction l as [|r l IH]; simpl; auto.
  destruct (r_type r =? T_OPT) eqn:E; simpl; auto. rewrite E, IH. reflexivity.
Qed.

Lemma filter_wf (l : list rr) f : forallb wf_rr l = true -> forallb wf_rr (filter f l) = true.
Proof.
  induction l as [|r l IH]; simpl; auto. intros H. apply andb_true_iff in H as [H1 H2].
  destruct (f r); simpl; auto. rewrite H1; auto.
Qed.

Definition nonopt (r : rr) : bool := negb (r_type r =? T_OPT).

Lemma filter_len (l : list rr) f : (length (filter f l) <= length l)%nat.
Proof. induction l as [|r l IH]; simpl; auto. destruct (f r); simpl; lia. Qed.

Lemma find_opt_len (l : list rr) r : find is_opt0 l = Some r ->
  In r l /\ is_opt0 r = true /\ (length (filter nonopt l) + 1 <= length l)%nat.
Proof.
  induction l as [|x l IH]; simpl; [discriminate|]. destruct (is_opt0 x) eqn:E.
  - intros H. inversion H; subst. split; auto. split; auto.
    unfold is_opt0 in E. apply andb_true_iff in E as [E _]. unfold nonopt at 1. rewrite E. simpl.
    pose proof (filter_len l nonopt). lia.
  - intros H. destruct (IH H) as (I1 & I2 & I3). split; auto. split; auto.
    destruct (nonopt x); simpl; lia.
Qed.

Lemma lor_rcode_bound x e : x < 16 -> e < 256 -> N.lor x (e * 16) < 4096.
Proof.
  intros Hx He.
  assert (H : forallb (fun x => forallb (fun e => N.lor x (e * 16) <? 4096) (map N.of_nat (seq 0 256)))
                (map N.of_nat (seq 0 16)) = true) by (vm_compute; reflexivity).
  assert (forall_below' : forall (P : N -> bool) (n : nat),
            forallb P (map N.of_nat (seq 0 n)) = true -> forall y, y < N.of_nat n -> P y = true).
  { intros P n HP y Hy. rewrite forallb_forall in HP. apply HP.
    apply in_map_iff. exists (N.to_nat y). split; [lia|]. apply in_seq. lia. }
  pose proof (forall_below' _ _ H x Hx) as H1. cbv beta in H1.
  pose proof (forall_below' _ _ H1 e He) as H2. cbv beta in H2. now apply N.ltb_lt.
Qed.

Lemma forallb_In {A} (f : A -> bool) l x : forallb f l = true -> In x l -> f x = true.
Proof. intros H. rewrite forallb_forall in H. auto. Qed.

Lemma decode_wf b m : bytes_ok b = true -> decode b = Ok m -> wf_pkt m = true.
Proof.
  intros HB E. unfold decode in E.
  assert (H0 : cur_ok (b, 0)) by exact HB.
  g16 H0 E qid0 c1 Wid H1.
  apply obind_ok in E as ([f1 c2] & E1 & E). destruct (get_u8_wf _ _ _ H1 E1) as [Wf1 H2].
  apply obind_ok in E as ([f2 c3] & E2 & E). destruct (get_u8_wf _ _ _ H2 E2) as [Wf2 H3].
  g16 H3 E qc c4 Wqc H4.
  destruct (negb (qc =? 1)); [discriminate|].
  g16 H4 E anc c5 Wanc H5. g16 H5 E nsc c6 Wnsc H6. g16 H6 E adc c7 Wadc H7.
  destruct (get_name b c7) as [[qn c8]| |] eqn:Eqn; cbn [obind] in E; try discriminate.
  destruct (get_name_wf _ _ _ _ HB H7 Eqn) as [Wqn H8].
  g16 H8 E qt c9 Wqt H9. g16 H9 E qcl c10 Wqcl H10.
  apply obind_ok in E as ([an c11] & Ean & E). destruct (get_rrs_wf _ _ HB _ _ _ _ H10 Ean) as (Wan & Lan & H11).
  apply obind_ok in E as ([ns c12] & Ens & E). destruct (get_rrs_wf _ _ HB _ _ _ _ H11 Ens) as (Wns & Lns & H12).
  apply obind_ok in E as ([ad_ c13] & Ead & E). destruct (get_rrs_wf _ _ HB _ _ _ _ H12 Ead) as (Wad & Lad & H13).
  inversion E; subst m. clear E.
  unfold wf_pkt. cbn [qid opcode rcode bufsize qname qtype qclass answer nameserver additional edns edns_ver edns_do].
  assert (Hop : (f1 / 8) mod 16 < 16) by (apply N.mod_lt; lia).
  assert (Hm16 : f2 mod 16 < 16) by (apply N.mod_lt; lia).
  unfold w16. rewrite (ltb_true _ _ Wid), (ltb_true _ _ Hop), Wqn, (ltb_true _ _ Wqt), (ltb_true _ _ Wqcl), Wan, Wns.
  rewrite (filter_wf _ _ Wad), filter_no_opt. cbn [negb andb].
  assert (La : lenN an < 65536) by (unfold lenN; lia).
  assert (Ln : lenN ns < 65536) by (unfold lenN; lia).
  rewrite (ltb_true _ _ La), (ltb_true _ _ Ln). cbn [andb].
  destruct (find is_opt0 ad_) as [o|] eqn:Ef.
  - destruct (find_opt_len _ _ Ef) as (Hin & Hopt & Hlen).
    pose proof (forallb_In _ _ _ Wad Hin) as Wo. unfold wf_rr in Wo. btrue Wo.
    unfold is_opt0 in Hopt. apply andb_true_iff in Hopt as [Ht Hv]. apply N.eqb_eq in Ht, Hv.
    repeat match goal with Hx : w16 _ = true |- _ => unfold w16 in Hx; apply N.ltb_lt in Hx end.
    repeat match goal with Hx : w32 _ = true |- _ => unfold w32 in Hx; apply N.ltb_lt in Hx end.
    assert (He : r_ttl o / 16777216 < 256) by (apply N.div_lt_upper_bound; lia).
    rewrite (ltb_true _ _ (lor_rcode_bound _ _ Hm16 He)).
    assert (Hbs : N.max (r_class o) 512 < 65536) by lia. rewrite (ltb_true _ _ Hbs).
    replace (512 <=? N.max (r_class o) 512) with true by (symmetry; apply N.leb_le; lia).
    cbn [andb].
    destruct (r_data o) as [| | | | |os| | | | |] eqn:Ed;
      match goal with Hk : kind_type_ok _ _ = true |- _ => rewrite Ht in Hk; try discriminate Hk end.
    cbn [opt_rr edns]. rewrite Hv. cbn [opt_eqb N.eqb].
    match goal with Hw : wf_rdata (ROpt os) = true |- _ => cbn [wf_rdata] in Hw; rewrite Hw end.
    rewrite lenN_app. change (lenN [_]) with 1.
    assert (Hl : lenN (filter (fun r => negb (r_type r =? T_OPT)) ad_) + 1 < 65536) by (unfold lenN; unfold nonopt in Hlen; lia).
    rewrite (ltb_true _ _ Hl). reflexivity.
  - cbn [opt_rr edns]. rewrite app_nil_r.
    assert (Hr : N.lor (f2 mod 16) (0 * 16) = f2 mod 16) by (simpl; apply N.lor_0_r). rewrite Hr.
    assert (Hr2 : f2 mod 16 < 4096) by lia. rewrite (ltb_true _ _ Hr2), (ltb_true _ _ Hm16).
    pose proof (filter_len ad_ (fun r => negb (r_type r =? T_OPT))) as Hfl.
    assert (Hl : lenN (filter (fun r => negb (r_type r =? T_OPT)) ad_) < 65536) by (unfold lenN; lia).
    rewrite (ltb_true _ _ Hl). reflexivity.
Qed.

(* decode . encode . decode = decode: what the decoder accepted is re-encoded
   (when nothing is dropped) into octets that decode to the identical message *)

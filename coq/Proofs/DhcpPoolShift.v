(* Translation lemma for the time hook.  The harness advances time by moving
   every stored timestamp [delta] seconds into the past
   (UPDATE leases SET start = start - delta, expiry = expiry - delta) while the
   wall clock keeps running; the model keeps an absolute clock.  The two views
   agree: running a step on the shifted store at wall time t is the same as
   running it on the unshifted store at time t + delta and shifting the result
   -- provided nothing saturates (delta below every stored timestamp, no u32
   wrap), which is what the harness guarantees. *)
From Erbium Require Import Lib.Base Model.DhcpPool Proofs.DhcpPool.

Definition shift_row (delta : N) (r : row) : row :=
  {| r_addr := r_addr r; r_client := r_client r;
     r_start := r_start r - delta; r_expiry := r_expiry r - delta |}.
Definition shift (delta : N) (d : db) : db := map (shift_row delta) d.

Definition shiftable (delta : N) (d : db) : Prop :=
  forall r, In r d -> delta <= r_start r /\ delta <= r_expiry r.

Lemma filter_map_comm : forall (f : row -> bool) (g : row -> bool) delta (l : list row),
  (forall r, In r l -> f (shift_row delta r) = g r) ->
  filter f (shift delta l) = shift delta (filter g l).
Proof.
  induction l as [|a l IH]; intros H; simpl; [reflexivity|].
  rewrite (H a (or_introl eq_refl)). rewrite IH by (intros; apply H; right; assumption).
  destruct (g a); reflexivity.
Qed.

Lemma my_rows_shift : forall delta d o, my_rows (shift delta d) o = shift delta (my_rows d o).
Proof. intros. unfold my_rows. apply filter_map_comm. intros. reflexivity. Qed.

Lemma shiftable_sub : forall delta d rs, shiftable delta d -> (forall r, In r rs -> In r d) -> shiftable delta rs.
Proof. intros delta d rs S H r Hr. apply S. apply H. assumption. Qed.

Lemma cur_rows_shift : forall delta d o t, shiftable delta d ->
  cur_rows (shift delta d) o t = shift delta (cur_rows d o (t + delta)).
Proof.
  intros. unfold cur_rows. rewrite my_rows_shift. apply filter_map_comm.
  intros r Hr. apply in_my_rows in Hr. destruct Hr as [Hr _]. destruct (H r Hr) as [_ E].
  simpl. destruct (t + delta <? r_expiry r) eqn:C.
  - apply N.ltb_lt in C. apply N.ltb_lt. lia.
  - apply N.ltb_ge in C. apply N.ltb_ge. lia.
Qed.

Lemma forallb_shift : forall (f g : row -> bool) delta l,
  (forall r, In r l -> f (shift_row delta r) = g r) -> forallb f (shift delta l) = forallb g l.
Proof.
  induction l as [|a l IH]; intros H; simpl; [reflexivity|].
  rewrite (H a (or_introl eq_refl)). rewrite IH by (intros; apply H; right; assumption). reflexivity.
Qed.

Lemma existsb_shift : forall (f g : row -> bool) delta l,
  (forall r, In r l -> f (shift_row delta r) = g r) -> existsb f (shift delta l) = existsb g l.
Proof.
  induction l as [|a l IH]; intros H; simpl; [reflexivity|].
  rewrite (H a (or_introl eq_refl)). rewrite IH by (intros; apply H; right; assumption). reflexivity.
Qed.

Lemma none_in_pool_shift : forall delta p rs, none_in_pool p (shift delta rs) = none_in_pool p rs.
Proof. intros. unfold none_in_pool. apply forallb_shift. intros. reflexivity. Qed.

Lemma free_shift : forall delta d t x, shiftable delta d ->
  free (shift delta d) t x = free d (t + delta) x.
Proof.
  intros. unfold free. apply forallb_shift. intros r Hr. destruct (H r Hr) as [_ E]. simpl.
  f_equal. destruct (r_expiry r <? t + delta) eqn:C.
  - apply N.ltb_lt in C. apply N.ltb_lt. lia.
  - apply N.ltb_ge in C. apply N.ltb_ge. lia.
Qed.

Lemma key_le_shift : forall delta req r' r,
  delta <= r_expiry r' -> delta <= r_expiry r ->
  key_le req (shift_row delta r') (shift_row delta r) = key_le req r' r.
Proof.
  intros. unfold key_le. simpl.
  destruct (is_req req (r_addr r')); destruct (is_req req (r_addr r)); try reflexivity;
    (destruct (r_expiry r' <=? r_expiry r) eqn:C;
     [apply N.leb_le in C; apply N.leb_le; lia | apply N.leb_gt in C; apply N.leb_gt; lia]).
Qed.

Lemma best_in_pool_shift : forall delta pool req rs r,
  shiftable delta rs -> delta <= r_expiry r ->
  best_in_pool pool req (shift delta rs) (shift_row delta r) = best_in_pool pool req rs r.
Proof.
  intros. unfold best_in_pool. simpl. f_equal. apply forallb_shift. intros r' Hr'. simpl.
  f_equal. apply key_le_shift. apply (H r' Hr'). assumption.
Qed.

Lemma find_addr_shift : forall delta x rs,
  find_addr x (shift delta rs) = option_map (shift_row delta) (find_addr x rs).
Proof.
  intros. unfold find_addr. induction rs as [|a l IH]; simpl; [reflexivity|].
  destruct (r_addr a =? x); [reflexivity|assumption].
Qed.

Lemma upsert_shift : forall delta n d,
  upsert (shift_row delta n) (shift delta d) = shift delta (upsert n d).
Proof.
  intros. unfold upsert. simpl. f_equal. apply filter_map_comm. intros. reflexivity.
Qed.

Lemma reuse_secs_shift : forall delta t r, delta <= r_start r ->
  reuse_secs t (shift_row delta r) = reuse_secs (t + delta) r.
Proof.
  intros. unfold reuse_secs, sat_sub, shift_row. cbn [r_start r_expiry].
  replace (t - (r_start r - delta)) with (t + delta - r_start r) by lia.
  replace (r_expiry r - delta - t) with (r_expiry r - (t + delta)) by lia. reflexivity.
Qed.

Lemma revive_secs_shift : forall delta r, delta <= r_start r ->
  revive_secs (shift_row delta r) = revive_secs r.
Proof.
  intros. unfold revive_secs, shift_row. cbn [r_start r_expiry].
  replace (r_expiry r - delta - (r_start r - delta)) with (r_expiry r - r_start r) by lia. reflexivity.
Qed.

Lemma req_ok_shift : forall delta d o t x, shiftable delta d ->
  req_ok (shift delta d) o t x = req_ok d o (t + delta) x.
Proof. intros. unfold req_ok. rewrite free_shift by assumption. reflexivity. Qed.

Lemma no_req_ok_shift : forall delta d o t, shiftable delta d ->
  no_req_ok (shift delta d) o t = no_req_ok d o (t + delta).
Proof.
  intros. unfold no_req_ok. destruct (o_req o); [|reflexivity]. rewrite req_ok_shift by assumption. reflexivity.
Qed.

Lemma new_row_shift : forall delta o ip t2 s, t2 + delta + s < pow2 32 ->
  shift_row delta (new_row o ip (t2 + delta) s) = new_row o ip t2 s.
Proof.
  intros. unfold shift_row, new_row. simpl.
  rewrite !cast_small by lia. f_equal; lia.
Qed.

(* the answer's lease time, if any *)
Definition ans_secs (a : answer) : N := match a with Granted _ s _ => s | _ => 0 end.

Theorem alloc_shift : forall delta d o t1 t2 a,
  shiftable delta d ->
  t1 + delta < pow2 32 -> t2 + delta + ans_secs a < pow2 32 ->
  alloc_ok (shift delta d) o t1 t2 a = option_map (shift delta) (alloc_ok d o (t1 + delta) (t2 + delta) a).
Proof.
  intros delta d o t1 t2 a S T1 T2.
  assert (Smy : shiftable delta (my_rows d o)).
  { eapply shiftable_sub; [exact S|]. intros r Hr. apply in_my_rows in Hr. tauto. }
  assert (Scur : shiftable delta (cur_rows d o (t1 + delta))).
  { eapply shiftable_sub; [exact S|]. intros r Hr. apply in_cur_rows in Hr. tauto. }
  unfold alloc_ok.
  rewrite (cast_small t1) by lia. rewrite (cast_small (t1 + delta)) by assumption.
  rewrite my_rows_shift, cur_rows_shift by assumption.
  rewrite !none_in_pool_shift.
  destruct a as [ip s k| | | |]; simpl in T2.
  - destruct k.
    + (* New *)
      rewrite no_req_ok_shift, free_shift by assumption.
      destruct (none_in_pool (o_pool o) (my_rows d o) && no_req_ok d o (t1 + delta) && in_pool (o_pool o) ip
                && free d (t1 + delta) ip && (s =? clamp o 0)); [cbn [option_map]|reflexivity].
      rewrite <- upsert_shift. rewrite new_row_shift by assumption. reflexivity.
    + (* Reusing *)
      rewrite find_addr_shift.
      destruct (find_addr ip (cur_rows d o (t1 + delta))) as [r|] eqn:F; simpl; [|reflexivity].
      apply find_addr_some in F. destruct F as [F1 F2]. destruct (Scur r F1) as [B1 B2].
      rewrite best_in_pool_shift by assumption. rewrite reuse_secs_shift by assumption.
      destruct (best_in_pool (o_pool o) (o_req o) (cur_rows d o (t1 + delta)) r
                && (s =? clamp o (reuse_secs (t1 + delta) r))); [cbn [option_map]|reflexivity].
      rewrite <- upsert_shift. rewrite new_row_shift by assumption. reflexivity.
    + (* Requested *)
      rewrite req_ok_shift by assumption.
      destruct (none_in_pool (o_pool o) (my_rows d o) && req_ok d o (t1 + delta) ip && (s =? clamp o 0));
        [cbn [option_map]|reflexivity].
      rewrite <- upsert_shift. rewrite new_row_shift by assumption. reflexivity.
    + (* Revived *)
      destruct (none_in_pool (o_pool o) (cur_rows d o (t1 + delta))); simpl; [|reflexivity].
      rewrite find_addr_shift.
      destruct (find_addr ip (my_rows d o)) as [r|] eqn:F; simpl; [|reflexivity].
      apply find_addr_some in F. destruct F as [F1 F2]. destruct (Smy r F1) as [B1 B2].
      rewrite best_in_pool_shift by assumption. rewrite revive_secs_shift by assumption.
      assert (E : (r_start r - delta <=? r_expiry r - delta) = (r_start r <=? r_expiry r)).
      { destruct (r_start r <=? r_expiry r) eqn:C.
        - apply N.leb_le in C. apply N.leb_le. lia.
        - apply N.leb_gt in C. apply N.leb_gt. lia. }
      rewrite E.
      destruct (best_in_pool (o_pool o) (o_req o) (my_rows d o) r && (r_start r <=? r_expiry r)
                && (s =? clamp o (revive_secs r))); [cbn [option_map]|reflexivity].
      rewrite <- upsert_shift. rewrite new_row_shift by assumption. reflexivity.
  - (* NoAddress *)
    rewrite no_req_ok_shift by assumption.
    assert (E : forallb (fun x => negb (free (shift delta d) t1 x)) (o_pool o)
                = forallb (fun x => negb (free d (t1 + delta) x)) (o_pool o)).
    { induction (o_pool o) as [|x l IH]; simpl; [reflexivity|]. rewrite free_shift by assumption. rewrite IH. reflexivity. }
    rewrite E.
    destruct (none_in_pool (o_pool o) (my_rows d o) && no_req_ok d o (t1 + delta)
              && forallb (fun x => negb (free d (t1 + delta) x)) (o_pool o)); reflexivity.
  - reflexivity.
  - reflexivity.
  - (* Panicked *)
    assert (E : existsb (fun r => best_in_pool (o_pool o) (o_req o) (shift delta (my_rows d o)) r
                                  && (r_expiry r <? r_start r)) (shift delta (my_rows d o))
                = existsb (fun r => best_in_pool (o_pool o) (o_req o) (my_rows d o) r
                                    && (r_expiry r <? r_start r)) (my_rows d o)).
    { apply existsb_shift. intros r Hr. destruct (Smy r Hr) as [B1 B2].
      rewrite best_in_pool_shift by assumption. simpl. f_equal.
      destruct (r_expiry r <? r_start r) eqn:C.
      - apply N.ltb_lt in C. apply N.ltb_lt. lia.
      - apply N.ltb_ge in C. apply N.ltb_ge. lia. }
    rewrite E.
    destruct (none_in_pool (o_pool o) (cur_rows d o (t1 + delta))
              && existsb (fun r => best_in_pool (o_pool o) (o_req o) (my_rows d o) r && (r_expiry r <? r_start r))
                         (my_rows d o)); reflexivity.
Qed.

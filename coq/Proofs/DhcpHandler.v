(* Proofs about Model/DhcpHandler.v (property C13). *)
From Erbium Require Import Lib.Base Model.DhcpCodec Model.DhcpHandler.

Lemma existsb_eqb_In s l : existsb (N.eqb s) l = true -> In s l.
Proof.
  intro H. apply existsb_exists in H. destruct H as [x [Hin Hx]].
  apply N.eqb_eq in Hx. now subst.
Qed.

Lemma who_is_answered i db m r db' :
  handle i db m = (Reply r, db') ->
  msgtype m = Some 1 \/
  (msgtype m = Some 3 /\
   (serverid m = None \/ exists s, serverid m = Some s /\ (In s (i_ids i) \/ s = i_serverip i))).
Proof.
  unfold handle. destruct (msgtype m) as [t|]; [|discriminate].
  destruct (t =? 1) eqn:E1; [intros _; left; apply N.eqb_eq in E1; now subst|].
  destruct (t =? 3) eqn:E3; cbn [orb negb andb]; [|discriminate].
  apply N.eqb_eq in E3. subst t.
  destruct (accepted_server i m) eqn:Ha; cbn [negb]; [|discriminate].
  intros _. right. split; [reflexivity|].
  unfold accepted_server in Ha. destruct (serverid m) as [s|]; [|now left].
  right. exists s. split; [reflexivity|].
  apply orb_true_iff in Ha. destruct Ha as [Ha|Ha].
  - left. now apply existsb_eqb_In.
  - right. now apply N.eqb_eq.
Qed.

Lemma silence_is_inert i db m e db' : handle i db m = (NoReply e, db') -> db' = db.
Proof.
  unfold handle. destruct (msgtype m) as [t|]; [|now inversion 1].
  destruct (negb _); [now inversion 1|].
  destruct (_ && _); [now inversion 1|].
  destruct (i_pol i) as [[|]|]; try (now inversion 1).
  destruct (i_alloc i) as [[ip secs]|]; [discriminate|now inversion 1].
Qed.

Lemma row_of_upsert_other r db x : x <> le_addr r -> row_of (upsert r db) x = row_of db x.
Proof.
  intro Hx. unfold row_of, upsert. cbn [find].
  destruct (le_addr r =? x) eqn:E; [apply N.eqb_eq in E; congruence|].
  induction db as [|y db IH]; [reflexivity|]. cbn [filter find].
  destruct (le_addr y =? le_addr r) eqn:Ey; cbn [negb find].
  - apply N.eqb_eq in Ey. destruct (le_addr y =? x) eqn:Eyx; [apply N.eqb_eq in Eyx; congruence|]. exact IH.
  - destruct (le_addr y =? x); [reflexivity|exact IH].
Qed.

Lemma row_of_upsert_same r db : row_of (upsert r db) (le_addr r) = Some r.
Proof. unfold row_of, upsert. cbn [find]. now rewrite N.eqb_refl. Qed.

Lemma reply_shape i db m r db' :
  handle i db m = (Reply r, db') ->
  exists t ip secs, msgtype m = Some t /\ i_alloc i = Some (ip, secs) /\
    r = mk_reply i m (t =? 3) ip secs /\
    db' = upsert {| le_addr := ip; le_client := client_id m; le_start := cast 32 (i_now i);
                    le_expiry := cast 32 (i_now i + secs) |} db.
Proof.
  unfold handle. destruct (msgtype m) as [t|]; [|discriminate].
  destruct (negb _); [discriminate|]. destruct (_ && _); [discriminate|].
  destruct (i_pol i) as [[|]|]; try discriminate.
  destruct (i_alloc i) as [[ip secs]|]; [|discriminate].
  intro H. inversion H. exists t, ip, secs. repeat split.
Qed.

Lemma touches_one_row i db m r db' :
  handle i db m = (Reply r, db') ->
  (forall x, x <> d_yiaddr r -> row_of db' x = row_of db x) /\
  exists row, row_of db' (d_yiaddr r) = Some row /\ le_client row = client_id m.
Proof.
  intro H. destruct (reply_shape _ _ _ _ _ H) as (t & ip & secs & _ & _ & -> & ->).
  cbn [mk_reply d_yiaddr]. split.
  - intros x Hx. now apply row_of_upsert_other.
  - eexists. split; [apply (row_of_upsert_same {| le_addr := ip |})|]. reflexivity.
Qed.

Lemma opt_get_set os code v : opt_get (set_opt os code v) code = Some v.
Proof. unfold set_opt. cbn [opt_get]. now rewrite N.eqb_refl. Qed.
Lemma opt_get_set_other os code v c : c <> code -> opt_get (set_opt os code v) c = opt_get os c.
Proof.
  intro Hc. unfold set_opt. cbn [opt_get].
  destruct (code =? c) eqn:E; [apply N.eqb_eq in E; congruence|].
  induction os as [|[k w] os IH]; [reflexivity|]. cbn [filter fst].
  destruct (k =? code) eqn:Ek; cbn [negb opt_get].
  - apply N.eqb_eq in Ek. subst k. rewrite E. exact IH.
  - destruct (k =? c); [reflexivity|exact IH].
Qed.

Lemma reply_echoes i db m r db' :
  handle i db m = (Reply r, db') ->
  d_op r = 2 /\ d_xid r = d_xid m /\ d_chaddr r = d_chaddr m /\ d_htype r = d_htype m /\
  d_hlen r = d_hlen m /\ d_giaddr r = d_giaddr m /\ d_flags r = d_flags m /\
  exists s, opt_get (d_options r) 54 = Some (be32 s) /\ (s = i_serverip i \/ In s (i_ids i)).
Proof.
  intro H. pose proof (who_is_answered _ _ _ _ _ H) as Hw.
  destruct (reply_shape _ _ _ _ _ H) as (t & ip & secs & Ht & _ & -> & _).
  cbn [mk_reply d_op d_xid d_chaddr d_htype d_hlen d_giaddr d_flags d_options].
  repeat (split; [reflexivity|]).
  rewrite opt_get_set_other by discriminate. rewrite opt_get_set_other by discriminate.
  rewrite opt_get_set. eexists. split; [reflexivity|].
  destruct (t =? 3) eqn:E3; [|now left].
  destruct (serverid m) as [s|] eqn:Es; [|now left].
  destruct Hw as [Hw|[_ [Hw|[s' [Hs' Hw]]]]].
  - rewrite Ht in Hw. apply N.eqb_eq in E3. subst. discriminate.
  - discriminate.
  - injection Hs' as <-. destruct Hw; [now right|now left].
Qed.

(* ---- histories ---------------------------------------------------------- *)
Fixpoint run (steps : list (step_in * dhcp)) (db : list lease) : list hres * list lease :=
  match steps with
  | [] => ([], db)
  | (i, m) :: rest =>
    let (r, d') := handle i db m in
    let (out, d'') := run rest d' in (r :: out, d'')
  end.

Definition yiaddrs (out : list hres) : list N :=
  flat_map (fun r => match r with Reply p => [d_yiaddr p] | NoReply _ => [] end) out.

(* over any history, a lease row changes only if some reply assigned that address *)
Lemma run_only_touches_granted steps : forall db x,
  ~ In x (yiaddrs (fst (run steps db))) -> row_of (snd (run steps db)) x = row_of db x.
Proof.
  induction steps as [|[i m] steps IH]; intros db x Hx; cbn [run] in *; [reflexivity|].
  destruct (handle i db m) as [r d'] eqn:Hh.
  specialize (IH d' x). destruct (run steps d') as [out d''].
  cbn [fst snd yiaddrs flat_map] in *.
  rewrite IH by (intro Hin; apply Hx; apply in_or_app; now right).
  destruct r as [p|e].
  - destruct (touches_one_row _ _ _ _ _ Hh) as [Hother _]. apply Hother.
    intro E. apply Hx. apply in_or_app. left. left. now rewrite E.
  - now rewrite (silence_is_inert _ _ _ _ _ Hh).
Qed.

(* and every reply in any history was to a DISCOVER or an acceptable REQUEST *)
Lemma run_replies_justified steps : forall db,
  Forall2 (fun sm r => match r with
                       | Reply _ => msgtype (snd sm) = Some 1 \/
                           (msgtype (snd sm) = Some 3 /\
                            (serverid (snd sm) = None \/
                             exists s, serverid (snd sm) = Some s /\
                                       (In s (i_ids (fst sm)) \/ s = i_serverip (fst sm))))
                       | NoReply _ => True
                       end) steps (fst (run steps db)).
Proof.
  induction steps as [|[i m] steps IH]; intro db; cbn [run]; [constructor|].
  destruct (handle i db m) as [r d'] eqn:Hh. specialize (IH d').
  destruct (run steps d') as [out d'']. cbn [fst] in *. constructor; [|exact IH].
  destruct r as [p|e]; [|exact I]. cbn [fst snd]. exact (who_is_answered _ _ _ _ _ Hh).
Qed.

Require Erbium.Props.C17.
Goal True. idtac "@@BEGIN C17_decodes_to_config". Abort.
Print Assumptions Erbium.Props.C17.C17_decodes_to_config.
Goal True. idtac "@@BEGIN C17_lengths". Abort.
Print Assumptions Erbium.Props.C17.C17_lengths.
Goal True. idtac "@@BEGIN C17_reserved_zero". Abort.
Print Assumptions Erbium.Props.C17.C17_reserved_zero.
Goal True. idtac "@@BEGIN C17_unrepresentable_is_clamped". Abort.
Print Assumptions Erbium.Props.C17.C17_unrepresentable_is_clamped.
Goal True. idtac "@@BEGIN C17_plc_table". Abort.
Print Assumptions Erbium.Props.C17.C17_plc_table.
Goal True. idtac "@@END". Abort.

Require Erbium.Props.C08.
Goal True. idtac "@@BEGIN C08_decision". Abort.
Print Assumptions Erbium.Props.C08.C08_decision.
Goal True. idtac "@@BEGIN C08_refused_no_match". Abort.
Print Assumptions Erbium.Props.C08.C08_refused_no_match.
Goal True. idtac "@@BEGIN C08_refused_lacks_permission". Abort.
Print Assumptions Erbium.Props.C08.C08_refused_lacks_permission.
Goal True. idtac "@@BEGIN C08_contains_spec". Abort.
Print Assumptions Erbium.Props.C08.C08_contains_spec.
Goal True. idtac "@@BEGIN C08_monitor_in_prefix". Abort.
Print Assumptions Erbium.Props.C08.C08_monitor_in_prefix.
Goal True. idtac "@@BEGIN C08_monitor_granted". Abort.
Print Assumptions Erbium.Props.C08.C08_monitor_granted.
Goal True. idtac "@@BEGIN C08_http_gate". Abort.
Print Assumptions Erbium.Props.C08.C08_http_gate.
Goal True. idtac "@@BEGIN C08_http_paths". Abort.
Print Assumptions Erbium.Props.C08.C08_http_paths.
Goal True. idtac "@@BEGIN C08_dns_gate". Abort.
Print Assumptions Erbium.Props.C08.C08_dns_gate.
Goal True. idtac "@@BEGIN C08_default_acls". Abort.
Print Assumptions Erbium.Props.C08.C08_default_acls.
Goal True. idtac "@@END". Abort.

Require Erbium.Props.C08.
Require Erbium.Props.DnsPipeline.
Goal True. idtac "@@BEGIN C08_decision". Abort.
Print Assumptions Erbium.Props.C08.C08_decision.
Goal True. idtac "@@BEGIN C08_refused_no_match". Abort.
Print Assumptions Erbium.Props.C08.C08_refused_no_match.
Goal True. idtac "@@BEGIN C08_refused_lacks_permission". Abort.
Print Assumptions Erbium.Props.C08.C08_refused_lacks_permission.
Goal True. idtac "@@BEGIN C08_contains_spec". Abort.
Print Assumptions Erbium.Props.C08.C08_contains_spec.
Goal True. idtac "@@BEGIN C08_monitor_in_prefix". Abort.
Print Assumptions Erbium.Props.C08.C08_monitor_in_prefix.
Goal True. idtac "@@BEGIN C08_monitor_granted". Abort.
Print Assumptions Erbium.Props.C08.C08_monitor_granted.
Goal True. idtac "@@BEGIN C08_http_gate". Abort.
Print Assumptions Erbium.Props.C08.C08_http_gate.
Goal True. idtac "@@BEGIN C08_http_paths". Abort.
Print Assumptions Erbium.Props.C08.C08_http_paths.
Goal True. idtac "@@BEGIN C08_dns_gate". Abort.
Print Assumptions Erbium.Props.C08.C08_dns_gate.
Goal True. idtac "@@BEGIN C08_default_acls". Abort.
Print Assumptions Erbium.Props.C08.C08_default_acls.
Goal True. idtac "@@BEGIN D01_total". Abort.
Print Assumptions Erbium.Props.DnsPipeline.D01_total.
Goal True. idtac "@@BEGIN D01_invariant_monotone". Abort.
Print Assumptions Erbium.Props.DnsPipeline.D01_invariant_monotone.
Goal True. idtac "@@BEGIN D02_acl". Abort.
Print Assumptions Erbium.Props.DnsPipeline.D02_acl.
Goal True. idtac "@@BEGIN D03_forge_nxdomain". Abort.
Print Assumptions Erbium.Props.DnsPipeline.D03_forge_nxdomain.
Goal True. idtac "@@BEGIN D03_forward_only". Abort.
Print Assumptions Erbium.Props.DnsPipeline.D03_forward_only.
Goal True. idtac "@@BEGIN D04_faithful". Abort.
Print Assumptions Erbium.Props.DnsPipeline.D04_faithful.
Goal True. idtac "@@BEGIN D05_hit_or_fetch". Abort.
Print Assumptions Erbium.Props.DnsPipeline.D05_hit_or_fetch.
Goal True. idtac "@@BEGIN D06_refused_tokens_bounded". Abort.
Print Assumptions Erbium.Props.DnsPipeline.D06_refused_tokens_bounded.
Goal True. idtac "@@BEGIN D06_refused_octets_bounded". Abort.
Print Assumptions Erbium.Props.DnsPipeline.D06_refused_octets_bounded.
Goal True. idtac "@@BEGIN D06_covered". Abort.
Print Assumptions Erbium.Props.DnsPipeline.D06_covered.
Goal True. idtac "@@BEGIN D04_history". Abort.
Print Assumptions Erbium.Props.DnsPipeline.D04_history.
Goal True. idtac "@@END". Abort.

module M = M
let check = M.check_C17

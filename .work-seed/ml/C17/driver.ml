(* Generic model driver: reads one case per line (decimal tokens separated by
   blanks), converts them to the extracted [n] type, calls the extracted
   entry point [Entry.check : n list -> n list] and prints the verdict tokens.
   Nothing property-specific lives here. *)
open Entry

let rec pos_of_int i =
  if i = 1 then M.XH
  else if i land 1 = 0 then M.XO (pos_of_int (i lsr 1))
  else M.XI (pos_of_int (i lsr 1))
let n_of_int i = if i = 0 then M.N0 else M.Npos (pos_of_int i)
let rec int_of_pos = function
  | M.XH -> 1
  | M.XO p -> 2 * int_of_pos p
  | M.XI p -> 2 * int_of_pos p + 1
let int_of_n = function M.N0 -> 0 | M.Npos p -> int_of_pos p

let tokens line =
  let n = String.length line in
  let rec go i acc cur have =
    if i = n then List.rev (if have then n_of_int cur :: acc else acc)
    else
      let c = line.[i] in
      if c >= '0' && c <= '9' then go (i + 1) acc (cur * 10 + (Char.code c - 48)) true
      else go (i + 1) (if have then n_of_int cur :: acc else acc) 0 false
  in
  go 0 [] 0 false

let () =
  let buf = Buffer.create 65536 in
  (try
     while true do
       let line = input_line stdin in
       let out = check (tokens line) in
       Buffer.clear buf;
       List.iteri (fun i t -> if i > 0 then Buffer.add_char buf ' '; Buffer.add_string buf (string_of_int (int_of_n t))) out;
       Buffer.add_char buf '\n';
       print_string (Buffer.contents buf)
     done
   with End_of_file -> ())


(** val negb : bool -> bool **)

let negb = function
| true -> false
| false -> true

type nat =
| O
| S of nat

(** val fst : ('a1 * 'a2) -> 'a1 **)

let fst = function
| (x, _) -> x

(** val snd : ('a1 * 'a2) -> 'a2 **)

let snd = function
| (_, y) -> y

(** val length : 'a1 list -> nat **)

let rec length = function
| [] -> O
| _ :: l' -> S (length l')

(** val app : 'a1 list -> 'a1 list -> 'a1 list **)

let rec app l m =
  match l with
  | [] -> m
  | a :: l1 -> a :: (app l1 m)

type comparison =
| Eq
| Lt
| Gt

module Coq__1 = struct
 (** val add : nat -> nat -> nat **)
 let rec add n0 m =
   match n0 with
   | O -> m
   | S p0 -> S (add p0 m)
end
include Coq__1

(** val eqb : bool -> bool -> bool **)

let eqb b1 b2 =
  if b1 then b2 else if b2 then false else true

(** val rev : 'a1 list -> 'a1 list **)

let rec rev = function
| [] -> []
| x :: l' -> app (rev l') (x :: [])

(** val concat : 'a1 list list -> 'a1 list **)

let rec concat = function
| [] -> []
| x :: l0 -> app x (concat l0)

(** val map : ('a1 -> 'a2) -> 'a1 list -> 'a2 list **)

let rec map f = function
| [] -> []
| a :: t -> (f a) :: (map f t)

(** val flat_map : ('a1 -> 'a2 list) -> 'a1 list -> 'a2 list **)

let rec flat_map f = function
| [] -> []
| x :: t -> app (f x) (flat_map f t)

(** val existsb : ('a1 -> bool) -> 'a1 list -> bool **)

let rec existsb f = function
| [] -> false
| a :: l0 -> (||) (f a) (existsb f l0)

(** val forallb : ('a1 -> bool) -> 'a1 list -> bool **)

let rec forallb f = function
| [] -> true
| a :: l0 -> (&&) (f a) (forallb f l0)

(** val filter : ('a1 -> bool) -> 'a1 list -> 'a1 list **)

let rec filter f = function
| [] -> []
| x :: l0 -> if f x then x :: (filter f l0) else filter f l0

(** val firstn : nat -> 'a1 list -> 'a1 list **)

let rec firstn n0 l =
  match n0 with
  | O -> []
  | S n1 -> (match l with
             | [] -> []
             | a :: l0 -> a :: (firstn n1 l0))

(** val skipn : nat -> 'a1 list -> 'a1 list **)

let rec skipn n0 l =
  match n0 with
  | O -> l
  | S n1 -> (match l with
             | [] -> []
             | _ :: l0 -> skipn n1 l0)

(** val repeat : 'a1 -> nat -> 'a1 list **)

let rec repeat x = function
| O -> []
| S k -> x :: (repeat x k)

type positive =
| XI of positive
| XO of positive
| XH

type n =
| N0
| Npos of positive

module Pos =
 struct
  type mask =
  | IsNul
  | IsPos of positive
  | IsNeg
 end

module Coq_Pos =
 struct
  (** val succ : positive -> positive **)

  let rec succ = function
  | XI p0 -> XO (succ p0)
  | XO p0 -> XI p0
  | XH -> XO XH

  (** val add : positive -> positive -> positive **)

  let rec add x y =
    match x with
    | XI p0 ->
      (match y with
       | XI q -> XO (add_carry p0 q)
       | XO q -> XI (add p0 q)
       | XH -> XO (succ p0))
    | XO p0 ->
      (match y with
       | XI q -> XI (add p0 q)
       | XO q -> XO (add p0 q)
       | XH -> XI p0)
    | XH -> (match y with
             | XI q -> XO (succ q)
             | XO q -> XI q
             | XH -> XO XH)

  (** val add_carry : positive -> positive -> positive **)

  and add_carry x y =
    match x with
    | XI p0 ->
      (match y with
       | XI q -> XI (add_carry p0 q)
       | XO q -> XO (add_carry p0 q)
       | XH -> XI (succ p0))
    | XO p0 ->
      (match y with
       | XI q -> XO (add_carry p0 q)
       | XO q -> XI (add p0 q)
       | XH -> XO (succ p0))
    | XH ->
      (match y with
       | XI q -> XI (succ q)
       | XO q -> XO (succ q)
       | XH -> XI XH)

  (** val pred_double : positive -> positive **)

  let rec pred_double = function
  | XI p0 -> XI (XO p0)
  | XO p0 -> XI (pred_double p0)
  | XH -> XH

  type mask = Pos.mask =
  | IsNul
  | IsPos of positive
  | IsNeg

  (** val succ_double_mask : mask -> mask **)

  let succ_double_mask = function
  | IsNul -> IsPos XH
  | IsPos p0 -> IsPos (XI p0)
  | IsNeg -> IsNeg

  (** val double_mask : mask -> mask **)

  let double_mask = function
  | IsPos p0 -> IsPos (XO p0)
  | x0 -> x0

  (** val double_pred_mask : positive -> mask **)

  let double_pred_mask = function
  | XI p0 -> IsPos (XO (XO p0))
  | XO p0 -> IsPos (XO (pred_double p0))
  | XH -> IsNul

  (** val sub_mask : positive -> positive -> mask **)

  let rec sub_mask x y =
    match x with
    | XI p0 ->
      (match y with
       | XI q -> double_mask (sub_mask p0 q)
       | XO q -> succ_double_mask (sub_mask p0 q)
       | XH -> IsPos (XO p0))
    | XO p0 ->
      (match y with
       | XI q -> succ_double_mask (sub_mask_carry p0 q)
       | XO q -> double_mask (sub_mask p0 q)
       | XH -> IsPos (pred_double p0))
    | XH -> (match y with
             | XH -> IsNul
             | _ -> IsNeg)

  (** val sub_mask_carry : positive -> positive -> mask **)

  and sub_mask_carry x y =
    match x with
    | XI p0 ->
      (match y with
       | XI q -> succ_double_mask (sub_mask_carry p0 q)
       | XO q -> double_mask (sub_mask p0 q)
       | XH -> IsPos (pred_double p0))
    | XO p0 ->
      (match y with
       | XI q -> double_mask (sub_mask_carry p0 q)
       | XO q -> succ_double_mask (sub_mask_carry p0 q)
       | XH -> double_pred_mask p0)
    | XH -> IsNeg

  (** val mul : positive -> positive -> positive **)

  let rec mul x y =
    match x with
    | XI p0 -> add y (XO (mul p0 y))
    | XO p0 -> XO (mul p0 y)
    | XH -> y

  (** val iter : ('a1 -> 'a1) -> 'a1 -> positive -> 'a1 **)

  let rec iter f x = function
  | XI n' -> f (iter f (iter f x n') n')
  | XO n' -> iter f (iter f x n') n'
  | XH -> f x

  (** val pow : positive -> positive -> positive **)

  let pow x =
    iter (mul x) XH

  (** val compare_cont : comparison -> positive -> positive -> comparison **)

  let rec compare_cont r x y =
    match x with
    | XI p0 ->
      (match y with
       | XI q -> compare_cont r p0 q
       | XO q -> compare_cont Gt p0 q
       | XH -> Gt)
    | XO p0 ->
      (match y with
       | XI q -> compare_cont Lt p0 q
       | XO q -> compare_cont r p0 q
       | XH -> Gt)
    | XH -> (match y with
             | XH -> r
             | _ -> Lt)

  (** val compare : positive -> positive -> comparison **)

  let compare =
    compare_cont Eq

  (** val eqb : positive -> positive -> bool **)

  let rec eqb p0 q =
    match p0 with
    | XI p1 -> (match q with
                | XI q0 -> eqb p1 q0
                | _ -> false)
    | XO p1 -> (match q with
                | XO q0 -> eqb p1 q0
                | _ -> false)
    | XH -> (match q with
             | XH -> true
             | _ -> false)

  (** val iter_op : ('a1 -> 'a1 -> 'a1) -> positive -> 'a1 -> 'a1 **)

  let rec iter_op op p0 a =
    match p0 with
    | XI p1 -> op a (iter_op op p1 (op a a))
    | XO p1 -> iter_op op p1 (op a a)
    | XH -> a

  (** val to_nat : positive -> nat **)

  let to_nat x =
    iter_op Coq__1.add x (S O)

  (** val of_succ_nat : nat -> positive **)

  let rec of_succ_nat = function
  | O -> XH
  | S x -> succ (of_succ_nat x)
 end

module N =
 struct
  (** val succ_double : n -> n **)

  let succ_double = function
  | N0 -> Npos XH
  | Npos p0 -> Npos (XI p0)

  (** val double : n -> n **)

  let double = function
  | N0 -> N0
  | Npos p0 -> Npos (XO p0)

  (** val add : n -> n -> n **)

  let add n0 m =
    match n0 with
    | N0 -> m
    | Npos p0 -> (match m with
                  | N0 -> n0
                  | Npos q -> Npos (Coq_Pos.add p0 q))

  (** val sub : n -> n -> n **)

  let sub n0 m =
    match n0 with
    | N0 -> N0
    | Npos n' ->
      (match m with
       | N0 -> n0
       | Npos m' ->
         (match Coq_Pos.sub_mask n' m' with
          | Coq_Pos.IsPos p0 -> Npos p0
          | _ -> N0))

  (** val mul : n -> n -> n **)

  let mul n0 m =
    match n0 with
    | N0 -> N0
    | Npos p0 -> (match m with
                  | N0 -> N0
                  | Npos q -> Npos (Coq_Pos.mul p0 q))

  (** val compare : n -> n -> comparison **)

  let compare n0 m =
    match n0 with
    | N0 -> (match m with
             | N0 -> Eq
             | Npos _ -> Lt)
    | Npos n' -> (match m with
                  | N0 -> Gt
                  | Npos m' -> Coq_Pos.compare n' m')

  (** val eqb : n -> n -> bool **)

  let eqb n0 m =
    match n0 with
    | N0 -> (match m with
             | N0 -> true
             | Npos _ -> false)
    | Npos p0 -> (match m with
                  | N0 -> false
                  | Npos q -> Coq_Pos.eqb p0 q)

  (** val leb : n -> n -> bool **)

  let leb x y =
    match compare x y with
    | Gt -> false
    | _ -> true

  (** val ltb : n -> n -> bool **)

  let ltb x y =
    match compare x y with
    | Lt -> true
    | _ -> false

  (** val min : n -> n -> n **)

  let min n0 n' =
    match compare n0 n' with
    | Gt -> n'
    | _ -> n0

  (** val pow : n -> n -> n **)

  let pow n0 = function
  | N0 -> Npos XH
  | Npos p1 -> (match n0 with
                | N0 -> N0
                | Npos q -> Npos (Coq_Pos.pow q p1))

  (** val pos_div_eucl : positive -> n -> n * n **)

  let rec pos_div_eucl a b =
    match a with
    | XI a' ->
      let (q, r) = pos_div_eucl a' b in
      let r' = succ_double r in
      if leb b r' then ((succ_double q), (sub r' b)) else ((double q), r')
    | XO a' ->
      let (q, r) = pos_div_eucl a' b in
      let r' = double r in
      if leb b r' then ((succ_double q), (sub r' b)) else ((double q), r')
    | XH ->
      (match b with
       | N0 -> (N0, (Npos XH))
       | Npos p0 ->
         (match p0 with
          | XH -> ((Npos XH), N0)
          | _ -> (N0, (Npos XH))))

  (** val div_eucl : n -> n -> n * n **)

  let div_eucl a b =
    match a with
    | N0 -> (N0, N0)
    | Npos na -> (match b with
                  | N0 -> (N0, a)
                  | Npos _ -> pos_div_eucl na b)

  (** val div : n -> n -> n **)

  let div a b =
    fst (div_eucl a b)

  (** val modulo : n -> n -> n **)

  let modulo a b =
    snd (div_eucl a b)

  (** val to_nat : n -> nat **)

  let to_nat = function
  | N0 -> O
  | Npos p0 -> Coq_Pos.to_nat p0

  (** val of_nat : nat -> n **)

  let of_nat = function
  | O -> N0
  | S n' -> Npos (Coq_Pos.of_succ_nat n')
 end

type panic_kind =
| IndexOOB
| Overflow
| UnwrapNone
| Assert
| Unreachable

type 'a outcome =
| Ok of 'a
| Err of n
| Panic of panic_kind

(** val pow2 : n -> n **)

let pow2 w =
  N.pow (Npos (XO XH)) w

(** val cast : n -> n -> n **)

let cast w a =
  N.modulo a (pow2 w)

(** val byte_ok : n -> bool **)

let byte_ok b =
  N.ltb b (Npos (XO (XO (XO (XO (XO (XO (XO (XO XH)))))))))

(** val bytes_ok : n list -> bool **)

let bytes_ok l =
  forallb byte_ok l

(** val be16 : n -> n list **)

let be16 v =
  (N.modulo (N.div v (Npos (XO (XO (XO (XO (XO (XO (XO (XO XH)))))))))) (Npos
    (XO (XO (XO (XO (XO (XO (XO (XO XH)))))))))) :: ((N.modulo v (Npos (XO
                                                       (XO (XO (XO (XO (XO
                                                       (XO (XO XH)))))))))) :: [])

(** val be32 : n -> n list **)

let be32 v =
  (N.modulo
    (N.div v (Npos (XO (XO (XO (XO (XO (XO (XO (XO (XO (XO (XO (XO (XO (XO
      (XO (XO (XO (XO (XO (XO (XO (XO (XO (XO XH))))))))))))))))))))))))))
    (Npos (XO (XO (XO (XO (XO (XO (XO (XO XH)))))))))) :: ((N.modulo
                                                             (N.div v (Npos
                                                               (XO (XO (XO
                                                               (XO (XO (XO
                                                               (XO (XO (XO
                                                               (XO (XO (XO
                                                               (XO (XO (XO
                                                               (XO
                                                               XH))))))))))))))))))
                                                             (Npos (XO (XO
                                                             (XO (XO (XO (XO
                                                             (XO (XO
                                                             XH)))))))))) :: (
    (N.modulo (N.div v (Npos (XO (XO (XO (XO (XO (XO (XO (XO XH))))))))))
      (Npos (XO (XO (XO (XO (XO (XO (XO (XO XH)))))))))) :: ((N.modulo v
                                                               (Npos (XO (XO
                                                               (XO (XO (XO
                                                               (XO (XO (XO
                                                               XH)))))))))) :: [])))

(** val lenN : 'a1 list -> n **)

let lenN l =
  N.of_nat (length l)

(** val takeN : n -> 'a1 list -> 'a1 list **)

let takeN n0 l =
  firstn (N.to_nat n0) l

(** val dropN : n -> 'a1 list -> 'a1 list **)

let dropN n0 l =
  skipn (N.to_nat n0) l

(** val repeatN : 'a1 -> n -> 'a1 list **)

let repeatN a n0 =
  repeat a (N.to_nat n0)

(** val list_eqb : ('a1 -> 'a1 -> bool) -> 'a1 list -> 'a1 list -> bool **)

let rec list_eqb eqb0 a b =
  match a with
  | [] -> (match b with
           | [] -> true
           | _ :: _ -> false)
  | x :: a' ->
    (match b with
     | [] -> false
     | y :: b' -> (&&) (eqb0 x y) (list_eqb eqb0 a' b'))

(** val bytes_eqb : n list -> n list -> bool **)

let bytes_eqb =
  list_eqb N.eqb

(** val tok_take : n -> n list -> (n list * n list) option **)

let tok_take n0 ts =
  if N.leb n0 (lenN ts) then Some ((takeN n0 ts), (dropN n0 ts)) else None

(** val tok_one : n list -> (n * n list) option **)

let tok_one = function
| [] -> None
| t :: r -> Some (t, r)

(** val tok_bytes : n list -> (n list * n list) option **)

let tok_bytes = function
| [] -> None
| n0 :: r -> tok_take n0 r

(** val put_bytes : n list -> n list **)

let put_bytes b =
  (lenN b) :: b

(** val v_ok : n -> n list **)

let v_ok tag =
  N0 :: (tag :: [])

(** val v_diff : n list -> n list **)

let v_diff expected0 =
  (Npos XH) :: expected0

(** val v_viol : n -> n list **)

let v_viol p0 =
  (Npos (XO XH)) :: (p0 :: [])

(** val v_bad : n list **)

let v_bad =
  (Npos (XI (XO (XO XH)))) :: []

type dur = { d_secs : n; d_nanos : n }

(** val secs : n -> dur **)

let secs s =
  { d_secs = s; d_nanos = N0 }

(** val as_secs : dur -> n **)

let as_secs d =
  d.d_secs

(** val as_millis : dur -> n **)

let as_millis d =
  N.add
    (N.mul d.d_secs (Npos (XO (XO (XO (XI (XO (XI (XI (XI (XI XH)))))))))))
    (N.div d.d_nanos (Npos (XO (XO (XO (XO (XO (XO (XI (XO (XO (XI (XO (XO
      (XO (XO (XI (XO (XI (XI (XI XH)))))))))))))))))))))

type 'a cv =
| NotSpecified
| DontSet
| Value of 'a

(** val cv_unwrap_or : 'a1 cv -> 'a1 -> 'a1 option **)

let cv_unwrap_or c n0 =
  match c with
  | NotSpecified -> Some n0
  | DontSet -> None
  | Value v -> Some v

(** val cv_or : 'a1 cv -> 'a1 option -> 'a1 option **)

let cv_or c n0 =
  match c with
  | NotSpecified -> n0
  | DontSet -> None
  | Value v -> Some v

(** val cv_always_unwrap_or : 'a1 cv -> 'a1 -> 'a1 **)

let cv_always_unwrap_or c n0 =
  match c with
  | Value v -> v
  | _ -> n0

type prefix = { p_addr : n list; p_len : n; p_onlink : bool; p_auto : 
                bool; p_valid : dur; p_preferred : dur }

type pref64 = { n_lifetime : dur; n_prefix : n list; n_len : n }

type intf = { i_hoplimit : n; i_managed : bool; i_other : bool;
              i_lifetime : dur cv; i_reachable : dur; i_retrans : dur;
              i_prefixes : prefix list; i_rdnss_lifetime : dur cv;
              i_rdnss : n list list cv; i_dnssl_lifetime : dur cv;
              i_dnssl : n list list cv; i_captive : n list cv;
              i_pref64 : pref64 option }

type top = { t_dns_servers : (n * n list) list; t_dns_search : n list list;
             t_captive : n list option }

type env = { e_ll : n list option; e_mtu : n option; e_self6 : n list;
             e_lifetime : dur }

type ndopt =
| OSourceLL of n list
| OMtu of n
| OPrefix of n * bool * bool * dur * dur * n list
| ORdnss of dur * n list list
| ODnssl of dur * n list list
| OPref64 of dur * n * n list
| OCaptive of n list

type radv = { a_hop : n; a_managed : bool; a_other : bool; a_lifetime : 
              dur; a_reachable : dur; a_retrans : dur; a_options : ndopt list }

(** val unspecified6 : n list **)

let unspecified6 =
  repeatN N0 (Npos (XO (XO (XO (XO XH)))))

(** val is_unspecified : n list -> bool **)

let is_unspecified a =
  bytes_eqb a unspecified6

(** val subst_self6 : n list -> n list -> n list **)

let subst_self6 self6 a =
  if is_unspecified a then self6 else a

(** val top_rdnss : top -> n list list **)

let top_rdnss t =
  flat_map (fun s ->
    if N.eqb (fst s) (Npos (XO (XI XH))) then (snd s) :: [] else [])
    t.t_dns_servers

(** val default_dns_lifetime : dur **)

let default_dns_lifetime =
  secs (Npos (XO (XO (XO (XI (XO (XO (XO (XO (XI (XI XH)))))))))))

(** val is_nil : 'a1 list -> bool **)

let is_nil = function
| [] -> true
| _ :: _ -> false

(** val build_options : top -> intf -> env -> ndopt list **)

let build_options t i e =
  app (match e.e_ll with
       | Some ll -> (OSourceLL ll) :: []
       | None -> [])
    (app (match e.e_mtu with
          | Some m -> (OMtu m) :: []
          | None -> [])
      (app
        (map (fun p0 -> OPrefix (p0.p_len, p0.p_onlink, p0.p_auto,
          p0.p_valid, p0.p_preferred, p0.p_addr)) i.i_prefixes)
        (app
          (match cv_unwrap_or i.i_rdnss (top_rdnss t) with
           | Some v ->
             let v0 = map (subst_self6 e.e_self6) v in
             if is_nil v0
             then []
             else (ORdnss
                    ((cv_always_unwrap_or i.i_rdnss_lifetime
                       default_dns_lifetime), v0)) :: []
           | None -> [])
          (app
            (match cv_unwrap_or i.i_dnssl t.t_dns_search with
             | Some v ->
               if is_nil v
               then []
               else (ODnssl
                      ((cv_always_unwrap_or i.i_dnssl_lifetime
                         default_dns_lifetime), v)) :: []
             | None -> [])
            (app
              (match i.i_pref64 with
               | Some p0 ->
                 (OPref64 (p0.n_lifetime, p0.n_len, p0.n_prefix)) :: []
               | None -> [])
              (match cv_or i.i_captive t.t_captive with
               | Some u -> (OCaptive u) :: []
               | None -> []))))))

(** val build : top -> intf -> env -> radv **)

let build t i e =
  { a_hop = i.i_hoplimit; a_managed = i.i_managed; a_other = i.i_other;
    a_lifetime = (cv_always_unwrap_or i.i_lifetime e.e_lifetime);
    a_reachable = i.i_reachable; a_retrans = i.i_retrans; a_options =
    (build_options t i e) }

(** val clamp : n -> n -> n **)

let clamp w v =
  N.min v (N.sub (pow2 w) (Npos XH))

(** val mask_byte : n -> n -> n **)

let mask_byte keep b =
  let m = N.pow (Npos (XO XH)) (N.sub (Npos (XO (XO (XO XH)))) keep) in
  N.mul (N.div b m) m

(** val mask_bytes : n -> n list -> n list **)

let rec mask_bytes len = function
| [] -> []
| b :: r ->
  (mask_byte (N.min len (Npos (XO (XO (XO XH))))) b) :: (mask_bytes
                                                          (N.sub len (Npos
                                                            (XO (XO (XO
                                                            XH))))) r)

(** val plc_of_len : n -> n option **)

let plc_of_len len =
  if N.eqb len (Npos (XO (XO (XO (XO (XO (XI XH)))))))
  then Some N0
  else if N.eqb len (Npos (XO (XO (XO (XO (XO (XO XH)))))))
       then Some (Npos XH)
       else if N.eqb len (Npos (XO (XO (XO (XI (XI XH))))))
            then Some (Npos (XO XH))
            else if N.eqb len (Npos (XO (XO (XO (XO (XI XH))))))
                 then Some (Npos (XI XH))
                 else if N.eqb len (Npos (XO (XO (XO (XI (XO XH))))))
                      then Some (Npos (XO (XO XH)))
                      else if N.eqb len (Npos (XO (XO (XO (XO (XO XH))))))
                           then Some (Npos (XI (XO XH)))
                           else None

(** val split_on : n -> n list -> n list list **)

let rec split_on sep = function
| [] -> [] :: []
| c :: r ->
  if N.eqb c sep
  then [] :: (split_on sep r)
  else (match split_on sep r with
        | [] -> (c :: []) :: []
        | l :: ls -> (c :: l) :: ls)

(** val enc_label : n list -> n list **)

let enc_label l =
  (cast (Npos (XO (XO (XO XH)))) (lenN l)) :: l

(** val enc_domain : n list -> n list **)

let enc_domain d =
  app (flat_map enc_label (split_on (Npos (XO (XI (XI (XI (XO XH)))))) d))
    (N0 :: [])

(** val pad8 : n -> n **)

let pad8 n0 =
  N.modulo
    (N.sub (Npos (XO (XO (XO XH)))) (N.modulo n0 (Npos (XO (XO (XO XH))))))
    (Npos (XO (XO (XO XH))))

(** val enc_domains : n list list -> n list **)

let enc_domains ds =
  let b = flat_map enc_domain ds in app b (repeatN N0 (pad8 (lenN b)))

(** val label_encodable : n list -> bool **)

let label_encodable l =
  (&&) (N.leb (Npos XH) (lenN l))
    (N.leb (lenN l) (Npos (XI (XI (XI (XI (XI XH)))))))

(** val domain_encodable : n list -> bool **)

let domain_encodable d =
  forallb label_encodable (split_on (Npos (XO (XI (XI (XI (XO XH)))))) d)

(** val enc_url : n list -> n list **)

let enc_url u =
  app u (repeatN N0 (pad8 (N.add (lenN u) (Npos (XO XH)))))

(** val div_ceil : n -> n -> n **)

let div_ceil a b =
  N.div (N.sub (N.add a b) (Npos XH)) b

(** val enc_opt : ndopt -> n list **)

let enc_opt = function
| OSourceLL b ->
  (Npos
    XH) :: ((cast (Npos (XO (XO (XO XH))))
              (div_ceil (lenN b) (Npos (XO (XO (XO XH)))))) :: b)
| OMtu m ->
  app ((Npos (XI (XO XH))) :: ((Npos XH) :: (N0 :: (N0 :: [])))) (be32 m)
| OPrefix (len, l, a, valid, pref, addr) ->
  app ((Npos (XI XH)) :: ((Npos (XO (XO
    XH))) :: (len :: ((N.add
                        (if l
                         then Npos (XO (XO (XO (XO (XO (XO (XO XH)))))))
                         else N0)
                        (if a
                         then Npos (XO (XO (XO (XO (XO (XO XH))))))
                         else N0)) :: []))))
    (app (be32 (clamp (Npos (XO (XO (XO (XO (XO XH)))))) (as_secs valid)))
      (app (be32 (clamp (Npos (XO (XO (XO (XO (XO XH)))))) (as_secs pref)))
        (app (N0 :: (N0 :: (N0 :: (N0 :: [])))) (mask_bytes len addr))))
| ORdnss (lt, servers) ->
  app ((Npos (XI (XO (XO (XI
    XH))))) :: ((cast (Npos (XO (XO (XO XH))))
                  (N.add (Npos XH) (N.mul (Npos (XO XH)) (lenN servers)))) :: (N0 :: (N0 :: []))))
    (app (be32 (clamp (Npos (XO (XO (XO (XO (XO XH)))))) (as_secs lt)))
      (concat servers))
| ODnssl (lt, ds) ->
  let ok = filter domain_encodable ds in
  if is_nil ok
  then []
  else let b = enc_domains ok in
       app ((Npos (XI (XI (XI (XI
         XH))))) :: ((N.add (Npos XH)
                       (cast (Npos (XO (XO (XO XH))))
                         (N.div (lenN b) (Npos (XO (XO (XO XH))))))) :: (N0 :: (N0 :: []))))
         (app (be32 (clamp (Npos (XO (XO (XO (XO (XO XH)))))) (as_secs lt)))
           b)
| OPref64 (lt, len, addr) ->
  (match plc_of_len len with
   | Some plc ->
     app ((Npos (XO (XI (XI (XO (XO XH)))))) :: ((Npos (XO XH)) :: []))
       (app
         (be16
           (N.add
             (N.mul
               (N.min (div_ceil (as_secs lt) (Npos (XO (XO (XO XH))))) (Npos
                 (XI (XI (XI (XI (XI (XI (XI (XI (XI (XI (XI (XI
                 XH)))))))))))))) (Npos (XO (XO (XO XH))))) plc))
         (takeN (Npos (XO (XO (XI XH)))) (mask_bytes len addr)))
   | None -> [])
| OCaptive u ->
  let b = enc_url u in
  (Npos (XI (XO (XI (XO (XO
  XH)))))) :: ((cast (Npos (XO (XO (XO XH))))
                 (N.add (Npos XH) (N.div (lenN b) (Npos (XO (XO (XO XH))))))) :: b)

(** val opt_panics : ndopt -> panic_kind option **)

let opt_panics = function
| OSourceLL b ->
  if N.ltb (div_ceil (lenN b) (Npos (XO (XO (XO XH))))) (Npos (XO (XO (XO (XO
       (XO (XO (XO (XO XH)))))))))
  then None
  else Some UnwrapNone
| ORdnss (_, servers) ->
  if N.ltb (N.add (Npos XH) (N.mul (Npos (XO XH)) (lenN servers))) (Npos (XO
       (XO (XO (XO (XO (XO (XO (XO XH)))))))))
  then None
  else Some UnwrapNone
| ODnssl (_, ds) ->
  if N.eqb
       (cast (Npos (XO (XO (XO XH))))
         (N.div (lenN (enc_domains (filter domain_encodable ds))) (Npos (XO
           (XO (XO XH)))))) (Npos (XI (XI (XI (XI (XI (XI (XI XH))))))))
  then Some Overflow
  else None
| _ -> None

(** val first_panic : ndopt list -> panic_kind option **)

let rec first_panic = function
| [] -> None
| o :: r -> (match opt_panics o with
             | Some k -> Some k
             | None -> first_panic r)

(** val enc_header : radv -> n list **)

let enc_header a =
  app ((Npos (XO (XI (XI (XO (XO (XO (XO
    XH)))))))) :: (N0 :: (N0 :: (N0 :: (a.a_hop :: ((N.add
                                                      (if a.a_managed
                                                       then Npos (XO (XO (XO
                                                              (XO (XO (XO (XO
                                                              XH)))))))
                                                       else N0)
                                                      (if a.a_other
                                                       then Npos (XO (XO (XO
                                                              (XO (XO (XO
                                                              XH))))))
                                                       else N0)) :: []))))))
    (app (be16 (clamp (Npos (XO (XO (XO (XO XH))))) (as_secs a.a_lifetime)))
      (app
        (be32
          (clamp (Npos (XO (XO (XO (XO (XO XH)))))) (as_millis a.a_reachable)))
        (be32
          (clamp (Npos (XO (XO (XO (XO (XO XH)))))) (as_millis a.a_retrans)))))

(** val enc_radv : radv -> n list **)

let enc_radv a =
  app (enc_header a) (flat_map enc_opt a.a_options)

(** val serialise : radv -> n list outcome **)

let serialise a =
  match first_panic a.a_options with
  | Some k -> Panic k
  | None ->
    let b = enc_radv a in
    if N.eqb (N.modulo (lenN b) (Npos (XO (XO (XO XH))))) N0
    then Ok b
    else Panic Assert

type rfc_prefix = { rp_len : n; rp_onlink : bool; rp_auto : bool;
                    rp_valid : n; rp_preferred : n; rp_prefix : n list }

type rfc_opt =
| RSll of n list
| RMtu of n
| RPrefix of rfc_prefix
| RRdnss of n * n list list
| RDnssl of n * n list list list
| RPref64 of n * n * n list
| RCaptive of n list

type rfc_ra = { r_hop : n; r_managed : bool; r_other : bool; r_lifetime : 
                n; r_reachable : n; r_retrans : n; r_sll : n list list;
                r_mtu : n list; r_prefixes : rfc_prefix list;
                r_rdnss : (n * n list list) list;
                r_dnssl : (n * n list list list) list;
                r_pref64 : ((n * n) * n list) list; r_captive : n list list }

(** val u16_at : n list -> n **)

let u16_at = function
| [] -> N0
| h :: l0 ->
  (match l0 with
   | [] -> N0
   | l :: _ ->
     N.add (N.mul h (Npos (XO (XO (XO (XO (XO (XO (XO (XO XH)))))))))) l)

(** val u32_at : n list -> n **)

let u32_at = function
| [] -> N0
| a :: l ->
  (match l with
   | [] -> N0
   | b0 :: l0 ->
     (match l0 with
      | [] -> N0
      | c :: l1 ->
        (match l1 with
         | [] -> N0
         | d :: _ ->
           N.add
             (N.mul
               (N.add
                 (N.mul
                   (N.add
                     (N.mul a (Npos (XO (XO (XO (XO (XO (XO (XO (XO
                       XH)))))))))) b0) (Npos (XO (XO (XO (XO (XO (XO (XO (XO
                   XH)))))))))) c) (Npos (XO (XO (XO (XO (XO (XO (XO (XO
               XH)))))))))) d)))

(** val all_zero : n list -> bool **)

let all_zero b =
  forallb (fun x -> N.eqb x N0) b

(** val tail_bits_zero : n -> n list -> bool **)

let rec tail_bits_zero len = function
| [] -> true
| b :: r ->
  (&&)
    (N.eqb
      (N.modulo b
        (N.pow (Npos (XO XH))
          (N.sub (Npos (XO (XO (XO XH))))
            (N.min len (Npos (XO (XO (XO XH)))))))) N0)
    (tail_bits_zero (N.sub len (Npos (XO (XO (XO XH))))) r)

(** val chunks16 : nat -> n list -> n list list option **)

let rec chunks16 fuel b =
  match fuel with
  | O -> (match b with
          | [] -> Some []
          | _ :: _ -> None)
  | S k ->
    (match b with
     | [] -> Some []
     | _ :: _ ->
       if N.ltb (lenN b) (Npos (XO (XO (XO (XO XH)))))
       then None
       else (match chunks16 k (dropN (Npos (XO (XO (XO (XO XH))))) b) with
             | Some cs -> Some ((takeN (Npos (XO (XO (XO (XO XH))))) b) :: cs)
             | None -> None))

(** val name_labels : nat -> n list -> (n list list * n list) option **)

let rec name_labels fuel b =
  match fuel with
  | O -> None
  | S k ->
    (match b with
     | [] -> None
     | l :: r ->
       if N.eqb l N0
       then Some ([], r)
       else if (||) (N.ltb (Npos (XI (XI (XI (XI (XI XH)))))) l)
                 (N.ltb (lenN r) l)
            then None
            else (match name_labels k (dropN l r) with
                  | Some p0 ->
                    let (ls, rest) = p0 in Some (((takeN l r) :: ls), rest)
                  | None -> None))

(** val dnssl_names : nat -> n list -> n list list list option **)

let rec dnssl_names fuel b =
  match fuel with
  | O -> None
  | S k ->
    (match b with
     | [] -> Some []
     | l :: _ ->
       if N.eqb l N0
       then if all_zero b then Some [] else None
       else (match name_labels (S (length b)) b with
             | Some p0 ->
               let (ls, rest) = p0 in
               (match dnssl_names k rest with
                | Some ds -> Some (ls :: ds)
                | None -> None)
             | None -> None))

(** val strip_zeros_rev : n list -> n list **)

let rec strip_zeros_rev b = match b with
| [] -> []
| x :: r -> if N.eqb x N0 then strip_zeros_rev r else b

(** val strip_trailing_zeros : n list -> n list **)

let strip_trailing_zeros b =
  rev (strip_zeros_rev (rev b))

(** val plc_len : n -> n option **)

let plc_len = function
| N0 -> Some (Npos (XO (XO (XO (XO (XO (XI XH)))))))
| Npos p0 ->
  (match p0 with
   | XI p1 ->
     (match p1 with
      | XI _ -> None
      | XO p2 ->
        (match p2 with
         | XH -> Some (Npos (XO (XO (XO (XO (XO XH))))))
         | _ -> None)
      | XH -> Some (Npos (XO (XO (XO (XO (XI XH)))))))
   | XO p1 ->
     (match p1 with
      | XI _ -> None
      | XO p2 ->
        (match p2 with
         | XH -> Some (Npos (XO (XO (XO (XI (XO XH))))))
         | _ -> None)
      | XH -> Some (Npos (XO (XO (XO (XI (XI XH)))))))
   | XH -> Some (Npos (XO (XO (XO (XO (XO (XO XH))))))))

(** val reserved_body : n -> n list -> bool **)

let reserved_body ty body =
  match ty with
  | N0 -> true
  | Npos p0 ->
    (match p0 with
     | XI p1 ->
       (match p1 with
        | XI p2 ->
          (match p2 with
           | XI p3 ->
             (match p3 with
              | XI p4 ->
                (match p4 with
                 | XH -> all_zero (takeN (Npos (XO XH)) body)
                 | _ -> true)
              | _ -> true)
           | _ -> true)
        | XO p2 ->
          (match p2 with
           | XI _ -> true
           | XO p3 ->
             (match p3 with
              | XI p4 ->
                (match p4 with
                 | XH -> all_zero (takeN (Npos (XO XH)) body)
                 | _ -> true)
              | _ -> true)
           | XH -> all_zero (takeN (Npos (XO XH)) body))
        | XH ->
          (match body with
           | [] -> false
           | plen :: l ->
             (match l with
              | [] -> false
              | flags :: r ->
                (&&)
                  ((&&)
                    (N.eqb
                      (N.modulo flags (Npos (XO (XO (XO (XO (XO (XO XH))))))))
                      N0)
                    (all_zero
                      (takeN (Npos (XO (XO XH)))
                        (dropN (Npos (XO (XO (XO XH)))) r))))
                  (tail_bits_zero plen (dropN (Npos (XO (XO (XI XH)))) r)))))
     | XO p1 ->
       (match p1 with
        | XI p2 ->
          (match p2 with
           | XI p3 ->
             (match p3 with
              | XO p4 ->
                (match p4 with
                 | XO p5 ->
                   (match p5 with
                    | XH ->
                      (match plc_len
                               (N.modulo (u16_at body) (Npos (XO (XO (XO
                                 XH))))) with
                       | Some plen ->
                         tail_bits_zero plen (dropN (Npos (XO XH)) body)
                       | None -> false)
                    | _ -> true)
                 | _ -> true)
              | _ -> true)
           | _ -> true)
        | _ -> true)
     | XH -> true)

(** val rfc_opt_body : n -> n -> n list -> rfc_opt option option **)

let rfc_opt_body ty len body =
  match ty with
  | N0 -> Some None
  | Npos p0 ->
    (match p0 with
     | XI p1 ->
       (match p1 with
        | XI p2 ->
          (match p2 with
           | XI p3 ->
             (match p3 with
              | XI p4 ->
                (match p4 with
                 | XH ->
                   if N.ltb len (Npos (XO XH))
                   then None
                   else (match dnssl_names (S (length body))
                                 (dropN (Npos (XO (XI XH))) body) with
                         | Some ds ->
                           (match ds with
                            | [] -> None
                            | _ :: _ ->
                              Some (Some (RDnssl
                                ((u32_at (dropN (Npos (XO XH)) body)), ds))))
                         | None -> None)
                 | _ -> Some None)
              | _ -> Some None)
           | _ -> Some None)
        | XO p2 ->
          (match p2 with
           | XI p3 ->
             (match p3 with
              | XO p4 ->
                (match p4 with
                 | XO p5 ->
                   (match p5 with
                    | XH -> Some (Some (RCaptive (strip_trailing_zeros body)))
                    | _ -> Some None)
                 | _ -> Some None)
              | _ -> Some None)
           | XO p3 ->
             (match p3 with
              | XI p4 ->
                (match p4 with
                 | XH ->
                   if (||) (N.ltb len (Npos (XI XH)))
                        (N.eqb (N.modulo len (Npos (XO XH))) N0)
                   then None
                   else (match chunks16 (length body)
                                 (dropN (Npos (XO (XI XH))) body) with
                         | Some servers ->
                           Some (Some (RRdnss
                             ((u32_at (dropN (Npos (XO XH)) body)), servers)))
                         | None -> None)
                 | _ -> Some None)
              | _ -> Some None)
           | XH ->
             if N.eqb len (Npos XH)
             then Some (Some (RMtu (u32_at (dropN (Npos (XO XH)) body))))
             else None)
        | XH ->
          if negb (N.eqb len (Npos (XO (XO XH))))
          then None
          else (match body with
                | [] -> None
                | plen :: l ->
                  (match l with
                   | [] -> None
                   | flags :: r ->
                     if N.leb plen (Npos (XO (XO (XO (XO (XO (XO (XO
                          XH))))))))
                     then Some (Some (RPrefix { rp_len = plen; rp_onlink =
                            (N.leb (Npos (XO (XO (XO (XO (XO (XO (XO
                              XH)))))))) flags); rp_auto =
                            (N.leb (Npos (XO (XO (XO (XO (XO (XO XH)))))))
                              (N.modulo flags (Npos (XO (XO (XO (XO (XO (XO
                                (XO XH)))))))))); rp_valid = (u32_at r);
                            rp_preferred =
                            (u32_at (dropN (Npos (XO (XO XH))) r));
                            rp_prefix = (dropN (Npos (XO (XO (XI XH)))) r) }))
                     else None)))
     | XO p1 ->
       (match p1 with
        | XI p2 ->
          (match p2 with
           | XI p3 ->
             (match p3 with
              | XO p4 ->
                (match p4 with
                 | XO p5 ->
                   (match p5 with
                    | XH ->
                      if negb (N.eqb len (Npos (XO XH)))
                      then None
                      else let v = u16_at body in
                           (match plc_len
                                    (N.modulo v (Npos (XO (XO (XO XH))))) with
                            | Some plen ->
                              Some (Some (RPref64
                                ((N.mul (N.div v (Npos (XO (XO (XO XH)))))
                                   (Npos (XO (XO (XO XH))))), plen,
                                (dropN (Npos (XO XH)) body))))
                            | None -> None)
                    | _ -> Some None)
                 | _ -> Some None)
              | _ -> Some None)
           | _ -> Some None)
        | _ -> Some None)
     | XH -> Some (Some (RSll body)))

(** val rfc_options : nat -> n list -> rfc_opt list option **)

let rec rfc_options fuel b =
  match fuel with
  | O -> (match b with
          | [] -> Some []
          | _ :: _ -> None)
  | S k ->
    (match b with
     | [] -> Some []
     | ty :: l ->
       (match l with
        | [] -> None
        | len :: r ->
          if (||)
               ((||) (N.eqb len N0)
                 (N.ltb (lenN r)
                   (N.sub (N.mul len (Npos (XO (XO (XO XH))))) (Npos (XO XH)))))
               (negb
                 (reserved_body ty
                   (takeN
                     (N.sub (N.mul len (Npos (XO (XO (XO XH))))) (Npos (XO
                       XH))) r)))
          then None
          else (match rfc_opt_body ty len
                        (takeN
                          (N.sub (N.mul len (Npos (XO (XO (XO XH))))) (Npos
                            (XO XH))) r) with
                | Some o0 ->
                  (match o0 with
                   | Some o ->
                     (match rfc_options k
                              (dropN
                                (N.sub (N.mul len (Npos (XO (XO (XO XH)))))
                                  (Npos (XO XH))) r) with
                      | Some os -> Some (o :: os)
                      | None -> None)
                   | None ->
                     rfc_options k
                       (dropN
                         (N.sub (N.mul len (Npos (XO (XO (XO XH))))) (Npos
                           (XO XH))) r))
                | None -> None)))

(** val collect :
    n -> bool -> bool -> n -> n -> n -> rfc_opt list -> rfc_ra **)

let collect hop m o lt reach retr os =
  { r_hop = hop; r_managed = m; r_other = o; r_lifetime = lt; r_reachable =
    reach; r_retrans = retr; r_sll =
    (flat_map (fun x -> match x with
                        | RSll a -> a :: []
                        | _ -> []) os); r_mtu =
    (flat_map (fun x -> match x with
                        | RMtu a -> a :: []
                        | _ -> []) os); r_prefixes =
    (flat_map (fun x -> match x with
                        | RPrefix a -> a :: []
                        | _ -> []) os); r_rdnss =
    (flat_map (fun x -> match x with
                        | RRdnss (l, s) -> (l, s) :: []
                        | _ -> []) os); r_dnssl =
    (flat_map (fun x -> match x with
                        | RDnssl (l, d) -> (l, d) :: []
                        | _ -> []) os); r_pref64 =
    (flat_map (fun x ->
      match x with
      | RPref64 (l, n0, p0) -> ((l, n0), p0) :: []
      | _ -> []) os); r_captive =
    (flat_map (fun x -> match x with
                        | RCaptive u -> u :: []
                        | _ -> []) os) }

(** val rfc_decode : n list -> rfc_ra option **)

let rfc_decode b = match b with
| [] -> None
| ty :: l ->
  (match l with
   | [] -> None
   | code :: l0 ->
     (match l0 with
      | [] -> None
      | _ :: l1 ->
        (match l1 with
         | [] -> None
         | _ :: l2 ->
           (match l2 with
            | [] -> None
            | hop :: l3 ->
              (match l3 with
               | [] -> None
               | flags :: r ->
                 if (||)
                      ((||)
                        ((||)
                          ((||) (negb (bytes_ok b))
                            (negb
                              (N.eqb ty (Npos (XO (XI (XI (XO (XO (XO (XO
                                XH))))))))))) (negb (N.eqb code N0)))
                        (negb
                          (N.eqb
                            (N.modulo flags (Npos (XO (XO (XO (XO (XO (XO
                              XH)))))))) N0)))
                      (N.ltb (lenN r) (Npos (XO (XI (XO XH)))))
                 then None
                 else (match rfc_options (length r)
                               (dropN (Npos (XO (XI (XO XH)))) r) with
                       | Some os ->
                         Some
                           (collect hop
                             (N.leb (Npos (XO (XO (XO (XO (XO (XO (XO
                               XH)))))))) flags)
                             (N.leb (Npos (XO (XO (XO (XO (XO (XO XH)))))))
                               (N.modulo flags (Npos (XO (XO (XO (XO (XO (XO
                                 (XO XH)))))))))) (u16_at r)
                             (u32_at (dropN (Npos (XO XH)) r))
                             (u32_at (dropN (Npos (XO (XI XH))) r)) os)
                       | None -> None))))))

(** val options_tile : nat -> n list -> bool **)

let rec options_tile fuel b =
  match fuel with
  | O -> (match b with
          | [] -> true
          | _ :: _ -> false)
  | S k ->
    (match b with
     | [] -> true
     | _ :: l ->
       (match l with
        | [] -> false
        | len :: r ->
          (&&)
            ((&&) (negb (N.eqb len N0))
              (N.leb
                (N.sub (N.mul len (Npos (XO (XO (XO XH))))) (Npos (XO XH)))
                (lenN r)))
            (options_tile k
              (dropN
                (N.sub (N.mul len (Npos (XO (XO (XO XH))))) (Npos (XO XH))) r))))

(** val lengths_ok : n list -> bool **)

let lengths_ok b =
  (&&)
    ((&&) (N.eqb (N.modulo (lenN b) (Npos (XO (XO (XO XH))))) N0)
      (N.leb (Npos (XO (XO (XO (XO XH))))) (lenN b)))
    (options_tile (length b) (dropN (Npos (XO (XO (XO (XO XH))))) b))

(** val reserved_opts : nat -> n list -> bool **)

let rec reserved_opts fuel b =
  match fuel with
  | O -> true
  | S k ->
    (match b with
     | [] -> true
     | ty :: l ->
       (match l with
        | [] -> true
        | len :: r ->
          (&&)
            (reserved_body ty
              (takeN
                (N.sub (N.mul len (Npos (XO (XO (XO XH))))) (Npos (XO XH))) r))
            (reserved_opts k
              (dropN
                (N.sub (N.mul len (Npos (XO (XO (XO XH))))) (Npos (XO XH))) r))))

(** val reserved_zero : n list -> bool **)

let reserved_zero = function
| [] -> false
| _ :: l ->
  (match l with
   | [] -> false
   | _ :: l0 ->
     (match l0 with
      | [] -> false
      | _ :: l1 ->
        (match l1 with
         | [] -> false
         | _ :: l2 ->
           (match l2 with
            | [] -> false
            | _ :: l3 ->
              (match l3 with
               | [] -> false
               | flags :: r ->
                 (&&)
                   (N.eqb
                     (N.modulo flags (Npos (XO (XO (XO (XO (XO (XO XH))))))))
                     N0)
                   (reserved_opts (length r)
                     (dropN (Npos (XO (XI (XO XH)))) r)))))))

(** val sat : n -> n -> n **)

let sat max v =
  if N.leb v max then v else max

(** val network : n -> n list -> n list **)

let rec network len = function
| [] -> []
| b :: r ->
  (let k =
     N.pow (Npos (XO XH))
       (N.sub (Npos (XO (XO (XO XH)))) (N.min len (Npos (XO (XO (XO XH))))))
   in
   N.sub b (N.modulo b k)) :: (network (N.sub len (Npos (XO (XO (XO XH))))) r)

(** val tri : 'a1 cv -> 'a1 option -> 'a1 option **)

let tri c default =
  match c with
  | NotSpecified -> default
  | DontSet -> None
  | Value v -> Some v

(** val tri_or : 'a1 cv -> 'a1 -> 'a1 **)

let tri_or c default =
  match c with
  | Value v -> v
  | _ -> default

(** val exp_prefix : prefix -> rfc_prefix **)

let exp_prefix p0 =
  { rp_len = p0.p_len; rp_onlink = p0.p_onlink; rp_auto = p0.p_auto;
    rp_valid =
    (sat (Npos (XI (XI (XI (XI (XI (XI (XI (XI (XI (XI (XI (XI (XI (XI (XI
      (XI (XI (XI (XI (XI (XI (XI (XI (XI (XI (XI (XI (XI (XI (XI (XI
      XH)))))))))))))))))))))))))))))))) p0.p_valid.d_secs); rp_preferred =
    (sat (Npos (XI (XI (XI (XI (XI (XI (XI (XI (XI (XI (XI (XI (XI (XI (XI
      (XI (XI (XI (XI (XI (XI (XI (XI (XI (XI (XI (XI (XI (XI (XI (XI
      XH)))))))))))))))))))))))))))))))) p0.p_preferred.d_secs); rp_prefix =
    (network p0.p_len p0.p_addr) }

(** val v6_servers : top -> n list list **)

let v6_servers t =
  map snd
    (filter (fun s -> N.eqb (fst s) (Npos (XO (XI XH)))) t.t_dns_servers)

(** val self6_subst : n list -> n list -> n list **)

let self6_subst self6 a =
  if forallb (fun x -> N.eqb x N0) a then self6 else a

(** val name_ok : n list -> bool **)

let name_ok d =
  forallb (fun l ->
    (&&) (N.leb (Npos XH) (lenN l))
      (N.leb (lenN l) (Npos (XI (XI (XI (XI (XI XH))))))))
    (split_on (Npos (XO (XI (XI (XI (XO XH)))))) d)

(** val nat64_len_ok : n -> bool **)

let nat64_len_ok n0 =
  existsb (N.eqb n0) ((Npos (XO (XO (XO (XO (XO XH)))))) :: ((Npos (XO (XO
    (XO (XI (XO XH)))))) :: ((Npos (XO (XO (XO (XO (XI XH)))))) :: ((Npos (XO
    (XO (XO (XI (XI XH)))))) :: ((Npos (XO (XO (XO (XO (XO (XO
    XH))))))) :: ((Npos (XO (XO (XO (XO (XO (XI XH))))))) :: []))))))

(** val pref64_lifetime : n -> n **)

let pref64_lifetime s =
  sat (Npos (XO (XO (XO (XI (XI (XI (XI (XI (XI (XI (XI (XI (XI (XI (XI
    XH))))))))))))))))
    (N.mul (N.div (N.add s (Npos (XI (XI XH)))) (Npos (XO (XO (XO XH)))))
      (Npos (XO (XO (XO XH)))))

(** val expected : top -> intf -> env -> rfc_ra **)

let expected t i e =
  { r_hop = i.i_hoplimit; r_managed = i.i_managed; r_other = i.i_other;
    r_lifetime =
    (sat (Npos (XI (XI (XI (XI (XI (XI (XI (XI (XI (XI (XI (XI (XI (XI (XI
      XH)))))))))))))))) (tri_or i.i_lifetime e.e_lifetime).d_secs);
    r_reachable =
    (sat (Npos (XI (XI (XI (XI (XI (XI (XI (XI (XI (XI (XI (XI (XI (XI (XI
      (XI (XI (XI (XI (XI (XI (XI (XI (XI (XI (XI (XI (XI (XI (XI (XI
      XH)))))))))))))))))))))))))))))))) (as_millis i.i_reachable));
    r_retrans =
    (sat (Npos (XI (XI (XI (XI (XI (XI (XI (XI (XI (XI (XI (XI (XI (XI (XI
      (XI (XI (XI (XI (XI (XI (XI (XI (XI (XI (XI (XI (XI (XI (XI (XI
      XH)))))))))))))))))))))))))))))))) (as_millis i.i_retrans)); r_sll =
    (match e.e_ll with
     | Some a -> a :: []
     | None -> []); r_mtu =
    (match e.e_mtu with
     | Some m -> m :: []
     | None -> []); r_prefixes = (map exp_prefix i.i_prefixes); r_rdnss =
    (match tri i.i_rdnss (Some (v6_servers t)) with
     | Some l ->
       (match l with
        | [] -> []
        | s :: ss ->
          ((sat (Npos (XI (XI (XI (XI (XI (XI (XI (XI (XI (XI (XI (XI (XI (XI
             (XI (XI (XI (XI (XI (XI (XI (XI (XI (XI (XI (XI (XI (XI (XI (XI
             (XI XH))))))))))))))))))))))))))))))))
             (tri_or i.i_rdnss_lifetime
               (secs (Npos (XO (XO (XO (XI (XO (XO (XO (XO (XI (XI
                 XH))))))))))))).d_secs),
            (map (self6_subst e.e_self6) (s :: ss))) :: [])
     | None -> []); r_dnssl =
    (match tri i.i_dnssl (Some t.t_dns_search) with
     | Some l ->
       (match filter name_ok l with
        | [] -> []
        | d :: ds ->
          ((sat (Npos (XI (XI (XI (XI (XI (XI (XI (XI (XI (XI (XI (XI (XI (XI
             (XI (XI (XI (XI (XI (XI (XI (XI (XI (XI (XI (XI (XI (XI (XI (XI
             (XI XH))))))))))))))))))))))))))))))))
             (tri_or i.i_dnssl_lifetime
               (secs (Npos (XO (XO (XO (XI (XO (XO (XO (XO (XI (XI
                 XH))))))))))))).d_secs),
            (map (split_on (Npos (XO (XI (XI (XI (XO XH))))))) (d :: ds))) :: [])
     | None -> []); r_pref64 =
    (match i.i_pref64 with
     | Some p0 ->
       if nat64_len_ok p0.n_len
       then (((pref64_lifetime p0.n_lifetime.d_secs), p0.n_len),
              (takeN (Npos (XO (XO (XI XH)))) (network p0.n_len p0.n_prefix))) :: []
       else []
     | None -> []); r_captive =
    (match tri i.i_captive t.t_captive with
     | Some u -> u :: []
     | None -> []) }

(** val addr_ok : n list -> bool **)

let addr_ok a =
  (&&) (N.eqb (lenN a) (Npos (XO (XO (XO (XO XH)))))) (bytes_ok a)

(** val label_ok : n list -> bool **)

let label_ok l =
  (&&)
    ((&&) (N.leb (Npos XH) (lenN l))
      (N.leb (lenN l) (Npos (XI (XI (XI (XI (XI XH)))))))) (bytes_ok l)

(** val domain_ok : n list -> bool **)

let domain_ok d =
  forallb label_ok (split_on (Npos (XO (XI (XI (XI (XO XH)))))) d)

(** val url_ok : n list -> bool **)

let url_ok u =
  (&&)
    (forallb (fun x ->
      (&&) (N.leb (Npos XH) x)
        (N.ltb x (Npos (XO (XO (XO (XO (XO (XO (XO (XO XH))))))))))) u)
    (N.leb (lenN u) (Npos (XO (XI (XI (XI (XO (XI (XI (XI (XI (XI
      XH))))))))))))

(** val prefix_ok : prefix -> bool **)

let prefix_ok p0 =
  (&&) (addr_ok p0.p_addr)
    (N.leb p0.p_len (Npos (XO (XO (XO (XO (XO (XO (XO XH)))))))))

(** val pref64_ok : pref64 -> bool **)

let pref64_ok p0 =
  addr_ok p0.n_prefix

(** val cv_forall : ('a1 -> bool) -> 'a1 cv -> bool **)

let cv_forall f = function
| Value v -> f v
| _ -> true

(** val opt_forall : ('a1 -> bool) -> 'a1 option -> bool **)

let opt_forall f = function
| Some v -> f v
| None -> true

(** val dnssl_fits : n list list -> bool **)

let dnssl_fits ds =
  N.leb (lenN (flat_map enc_domain ds)) (Npos (XO (XO (XO (XO (XI (XI (XI (XI
    (XI (XI XH)))))))))))

(** val wf_top : top -> bool **)

let wf_top t =
  (&&)
    ((&&)
      ((&&)
        ((&&)
          (forallb (fun s ->
            (||) (negb (N.eqb (fst s) (Npos (XO (XI XH))))) (addr_ok (snd s)))
            t.t_dns_servers)
          (N.leb (lenN t.t_dns_servers) (Npos (XI (XI (XI (XI (XI (XI
            XH))))))))) (forallb domain_ok t.t_dns_search))
      (dnssl_fits t.t_dns_search)) (opt_forall url_ok t.t_captive)

(** val wf_intf : intf -> bool **)

let wf_intf i =
  (&&)
    ((&&)
      ((&&)
        ((&&)
          ((&&)
            (N.ltb i.i_hoplimit (Npos (XO (XO (XO (XO (XO (XO (XO (XO
              XH)))))))))) (forallb prefix_ok i.i_prefixes))
          (cv_forall (fun l ->
            (&&) (forallb addr_ok l)
              (N.leb (lenN l) (Npos (XI (XI (XI (XI (XI (XI XH)))))))))
            i.i_rdnss))
        (cv_forall (fun l -> (&&) (forallb domain_ok l) (dnssl_fits l))
          i.i_dnssl)) (cv_forall url_ok i.i_captive))
    (opt_forall pref64_ok i.i_pref64)

(** val wf_env : env -> bool **)

let wf_env e =
  (&&)
    ((&&)
      (opt_forall (fun a ->
        (&&) (N.eqb (lenN a) (Npos (XO (XI XH)))) (bytes_ok a)) e.e_ll)
      (opt_forall (fun m ->
        N.ltb m (Npos (XO (XO (XO (XO (XO (XO (XO (XO (XO (XO (XO (XO (XO (XO
          (XO (XO (XO (XO (XO (XO (XO (XO (XO (XO (XO (XO (XO (XO (XO (XO (XO
          (XO XH)))))))))))))))))))))))))))))))))) e.e_mtu))
    (addr_ok e.e_self6)

(** val wf_cfg : top -> intf -> env -> bool **)

let wf_cfg t i e =
  (&&) ((&&) (wf_top t) (wf_intf i)) (wf_env e)

type 'a p = n list -> ('a * n list) option

(** val pret : 'a1 -> 'a1 p **)

let pret a ts =
  Some (a, ts)

(** val pbind : 'a1 p -> ('a1 -> 'a2 p) -> 'a2 p **)

let pbind p0 f ts =
  match p0 ts with
  | Some p1 -> let (a, r) = p1 in f a r
  | None -> None

(** val p_n : n p **)

let p_n =
  tok_one

(** val p_bool : bool p **)

let p_bool = function
| [] -> None
| t :: r -> Some ((negb (N.eqb t N0)), r)

(** val p_take : n -> n list p **)

let p_take =
  tok_take

(** val p_str : n list p **)

let p_str =
  tok_bytes

(** val p_dur : dur p **)

let p_dur =
  pbind p_n (fun hi ->
    pbind p_n (fun lo ->
      pbind p_n (fun ns ->
        pret { d_secs =
          (N.add
            (N.mul hi (Npos (XO (XO (XO (XO (XO (XO (XO (XO (XO (XO (XO (XO
              (XO (XO (XO (XO (XO (XO (XO (XO (XO (XO (XO (XO (XO (XO (XO (XO
              (XO (XO (XO (XO XH)))))))))))))))))))))))))))))))))) lo);
          d_nanos = ns })))

(** val p_opt : 'a1 p -> 'a1 option p **)

let p_opt p0 =
  pbind p_n (fun t ->
    match t with
    | N0 -> pret None
    | Npos p1 ->
      (match p1 with
       | XH -> pbind p0 (fun a -> pret (Some a))
       | _ -> (fun _ -> None)))

(** val p_cv : 'a1 p -> 'a1 cv p **)

let p_cv p0 =
  pbind p_n (fun t ->
    match t with
    | N0 -> pret NotSpecified
    | Npos p1 ->
      (match p1 with
       | XI _ -> (fun _ -> None)
       | XO p2 ->
         (match p2 with
          | XH -> pbind p0 (fun a -> pret (Value a))
          | _ -> (fun _ -> None))
       | XH -> pret DontSet))

(** val p_rep : 'a1 p -> nat -> 'a1 list p **)

let rec p_rep p0 = function
| O -> pret []
| S k -> pbind p0 (fun a -> pbind (p_rep p0 k) (fun r -> pret (a :: r)))

(** val p_list : 'a1 p -> 'a1 list p **)

let p_list p0 = function
| [] -> None
| n0 :: r -> if N.leb n0 (lenN r) then p_rep p0 (N.to_nat n0) r else None

(** val p_server : (n * n list) p **)

let p_server =
  pbind p_n (fun fam ->
    pbind
      (p_take
        (if N.eqb fam (Npos (XO (XO XH)))
         then Npos (XO (XO XH))
         else Npos (XO (XO (XO (XO XH)))))) (fun a -> pret (fam, a)))

(** val p_top : top p **)

let p_top =
  pbind (p_list p_server) (fun s ->
    pbind (p_list p_str) (fun d ->
      pbind (p_opt p_str) (fun c ->
        pret { t_dns_servers = s; t_dns_search = d; t_captive = c })))

(** val p_prefix : prefix p **)

let p_prefix =
  pbind (p_take (Npos (XO (XO (XO (XO XH)))))) (fun a ->
    pbind p_n (fun len ->
      pbind p_bool (fun l ->
        pbind p_bool (fun au ->
          pbind p_dur (fun v ->
            pbind p_dur (fun pr ->
              pret { p_addr = a; p_len = len; p_onlink = l; p_auto = au;
                p_valid = v; p_preferred = pr }))))))

(** val p_pref64 : pref64 p **)

let p_pref64 =
  pbind p_dur (fun lt ->
    pbind (p_take (Npos (XO (XO (XO (XO XH)))))) (fun a ->
      pbind p_n (fun len ->
        pret { n_lifetime = lt; n_prefix = a; n_len = len })))

(** val p_intf : intf p **)

let p_intf =
  pbind p_n (fun hop ->
    pbind p_bool (fun m ->
      pbind p_bool (fun o ->
        pbind (p_cv p_dur) (fun lt ->
          pbind p_dur (fun reach ->
            pbind p_dur (fun retr ->
              pbind (p_list p_prefix) (fun ps ->
                pbind (p_cv p_dur) (fun rl ->
                  pbind
                    (p_cv (p_list (p_take (Npos (XO (XO (XO (XO XH))))))))
                    (fun rs ->
                    pbind (p_cv p_dur) (fun dl ->
                      pbind (p_cv (p_list p_str)) (fun ds ->
                        pbind (p_cv p_str) (fun cp ->
                          pbind (p_opt p_pref64) (fun n64 ->
                            pret { i_hoplimit = hop; i_managed = m; i_other =
                              o; i_lifetime = lt; i_reachable = reach;
                              i_retrans = retr; i_prefixes = ps;
                              i_rdnss_lifetime = rl; i_rdnss = rs;
                              i_dnssl_lifetime = dl; i_dnssl = ds;
                              i_captive = cp; i_pref64 = n64 })))))))))))))

(** val p_env : env p **)

let p_env =
  pbind (p_opt (p_take (Npos (XO (XI XH))))) (fun ll ->
    pbind (p_opt p_n) (fun mtu ->
      pbind (p_take (Npos (XO (XO (XO (XO XH)))))) (fun s6 ->
        pbind p_dur (fun lt ->
          pret { e_ll = ll; e_mtu = mtu; e_self6 = s6; e_lifetime = lt }))))

(** val lb_eqb : n list list -> n list list -> bool **)

let lb_eqb =
  list_eqb bytes_eqb

(** val rfc_prefix_eqb : rfc_prefix -> rfc_prefix -> bool **)

let rfc_prefix_eqb a b =
  (&&)
    ((&&)
      ((&&)
        ((&&) ((&&) (N.eqb a.rp_len b.rp_len) (eqb a.rp_onlink b.rp_onlink))
          (eqb a.rp_auto b.rp_auto)) (N.eqb a.rp_valid b.rp_valid))
      (N.eqb a.rp_preferred b.rp_preferred))
    (bytes_eqb a.rp_prefix b.rp_prefix)

(** val rfc_ra_eqb : rfc_ra -> rfc_ra -> bool **)

let rfc_ra_eqb a b =
  (&&)
    ((&&)
      ((&&)
        ((&&)
          ((&&)
            ((&&)
              ((&&)
                ((&&)
                  ((&&)
                    ((&&)
                      ((&&)
                        ((&&) (N.eqb a.r_hop b.r_hop)
                          (eqb a.r_managed b.r_managed))
                        (eqb a.r_other b.r_other))
                      (N.eqb a.r_lifetime b.r_lifetime))
                    (N.eqb a.r_reachable b.r_reachable))
                  (N.eqb a.r_retrans b.r_retrans)) (lb_eqb a.r_sll b.r_sll))
              (list_eqb N.eqb a.r_mtu b.r_mtu))
            (list_eqb rfc_prefix_eqb a.r_prefixes b.r_prefixes))
          (list_eqb (fun x y ->
            (&&) (N.eqb (fst x) (fst y)) (lb_eqb (snd x) (snd y))) a.r_rdnss
            b.r_rdnss))
        (list_eqb (fun x y ->
          (&&) (N.eqb (fst x) (fst y)) (list_eqb lb_eqb (snd x) (snd y)))
          a.r_dnssl b.r_dnssl))
      (list_eqb (fun x y ->
        (&&)
          ((&&) (N.eqb (fst (fst x)) (fst (fst y)))
            (N.eqb (snd (fst x)) (snd (fst y)))) (bytes_eqb (snd x) (snd y)))
        a.r_pref64 b.r_pref64)) (lb_eqb a.r_captive b.r_captive)

(** val has_bad_domain : top -> intf -> bool **)

let has_bad_domain t i =
  negb
    (forallb domain_ok
      (match cv_unwrap_or i.i_dnssl t.t_dns_search with
       | Some v -> v
       | None -> []))

(** val loader_rejects : intf -> bool **)

let loader_rejects i =
  (||)
    (existsb (fun p0 ->
      N.ltb (Npos (XO (XO (XO (XO (XO (XO (XO XH)))))))) p0.p_len)
      i.i_prefixes)
    (match i.i_pref64 with
     | Some p0 -> negb (nat64_len_ok p0.n_len)
     | None -> false)

(** val over : n -> n -> bool **)

let over =
  N.ltb

(** val clamped : top -> intf -> env -> bool **)

let clamped _ i e =
  (||)
    ((||)
      ((||)
        ((||)
          ((||)
            ((||)
              (over (Npos (XI (XI (XI (XI (XI (XI (XI (XI (XI (XI (XI (XI (XI
                (XI (XI XH))))))))))))))))
                (tri_or i.i_lifetime e.e_lifetime).d_secs)
              (over (Npos (XI (XI (XI (XI (XI (XI (XI (XI (XI (XI (XI (XI (XI
                (XI (XI (XI (XI (XI (XI (XI (XI (XI (XI (XI (XI (XI (XI (XI
                (XI (XI (XI XH))))))))))))))))))))))))))))))))
                (as_millis i.i_reachable)))
            (over (Npos (XI (XI (XI (XI (XI (XI (XI (XI (XI (XI (XI (XI (XI
              (XI (XI (XI (XI (XI (XI (XI (XI (XI (XI (XI (XI (XI (XI (XI (XI
              (XI (XI XH))))))))))))))))))))))))))))))))
              (as_millis i.i_retrans)))
          (existsb (fun p0 ->
            (||)
              (over (Npos (XI (XI (XI (XI (XI (XI (XI (XI (XI (XI (XI (XI (XI
                (XI (XI (XI (XI (XI (XI (XI (XI (XI (XI (XI (XI (XI (XI (XI
                (XI (XI (XI XH))))))))))))))))))))))))))))))))
                p0.p_valid.d_secs)
              (over (Npos (XI (XI (XI (XI (XI (XI (XI (XI (XI (XI (XI (XI (XI
                (XI (XI (XI (XI (XI (XI (XI (XI (XI (XI (XI (XI (XI (XI (XI
                (XI (XI (XI XH))))))))))))))))))))))))))))))))
                p0.p_preferred.d_secs)) i.i_prefixes))
        (over (Npos (XI (XI (XI (XI (XI (XI (XI (XI (XI (XI (XI (XI (XI (XI
          (XI (XI (XI (XI (XI (XI (XI (XI (XI (XI (XI (XI (XI (XI (XI (XI (XI
          XH))))))))))))))))))))))))))))))))
          (tri_or i.i_rdnss_lifetime
            (secs (Npos (XO (XO (XO (XI (XO (XO (XO (XO (XI (XI XH))))))))))))).d_secs))
      (over (Npos (XI (XI (XI (XI (XI (XI (XI (XI (XI (XI (XI (XI (XI (XI (XI
        (XI (XI (XI (XI (XI (XI (XI (XI (XI (XI (XI (XI (XI (XI (XI (XI
        XH))))))))))))))))))))))))))))))))
        (tri_or i.i_dnssl_lifetime
          (secs (Npos (XO (XO (XO (XI (XO (XO (XO (XO (XI (XI XH))))))))))))).d_secs))
    (match i.i_pref64 with
     | Some p0 ->
       over (Npos (XO (XO (XO (XI (XI (XI (XI (XI (XI (XI (XI (XI (XI (XI (XI
         XH)))))))))))))))) p0.n_lifetime.d_secs
     | None -> false)

(** val tag_of : n -> top -> intf -> env -> rfc_ra -> n **)

let tag_of kind t i e x =
  N.add
    (N.add
      (N.add
        (N.add
          (N.add
            (N.add
              (N.add (if is_nil x.r_prefixes then N0 else Npos XH)
                (if is_nil x.r_rdnss then N0 else Npos (XO XH)))
              (if is_nil x.r_dnssl then N0 else Npos (XO (XO XH))))
            (if is_nil x.r_pref64 then N0 else Npos (XO (XO (XO XH)))))
          (if is_nil x.r_captive then N0 else Npos (XO (XO (XO (XO XH))))))
        (if clamped t i e then Npos (XO (XO (XO (XO (XO XH))))) else N0))
      (if N.eqb kind (Npos (XO XH))
       then Npos (XO (XO (XO (XO (XO (XO XH))))))
       else N0))
    (if has_bad_domain t i
     then Npos (XO (XO (XO (XO (XO (XO (XO XH)))))))
     else N0)

(** val model_out : radv -> n list **)

let model_out a =
  match serialise a with
  | Ok b -> N0 :: (put_bytes b)
  | _ -> (Npos (XO XH)) :: []

(** val check_cfg : n -> top -> intf -> env -> n list -> n list **)

let check_cfg kind t i e impl =
  let model = model_out (build t i e) in
  (match impl with
   | [] -> v_bad
   | n0 :: r ->
     (match n0 with
      | N0 ->
        (match tok_bytes r with
         | Some p0 ->
           let (b, l) = p0 in
           (match l with
            | [] ->
              if (&&) (N.eqb kind (Npos (XO XH))) (loader_rejects i)
              then v_viol (Npos (XO (XI XH)))
              else if negb (lengths_ok b)
                   then v_viol (Npos (XO XH))
                   else if negb (reserved_zero b)
                        then v_viol (Npos (XI XH))
                        else (match rfc_decode b with
                              | Some x ->
                                if negb (rfc_ra_eqb x (expected t i e))
                                then if clamped t i e
                                     then v_viol (Npos (XO (XO XH)))
                                     else v_viol (Npos XH)
                                else if negb (list_eqb N.eqb impl model)
                                     then v_diff model
                                     else v_ok (tag_of kind t i e x)
                              | None -> v_viol (Npos XH))
            | _ :: _ -> v_bad)
         | None -> v_bad)
      | Npos p0 ->
        (match p0 with
         | XI p1 ->
           (match p1 with
            | XH ->
              (match r with
               | [] ->
                 if (&&) (N.eqb kind (Npos (XO XH))) (loader_rejects i)
                 then v_ok (Npos (XO (XO (XO (XI (XO (XO (XI XH))))))))
                 else v_diff model
               | _ :: _ -> v_bad)
            | _ -> v_bad)
         | XO p1 ->
           (match p1 with
            | XH ->
              (match r with
               | [] ->
                 if wf_cfg t i e
                 then v_viol (Npos (XI (XO XH)))
                 else if list_eqb N.eqb impl model
                      then v_ok (Npos (XI (XO (XO (XI (XO (XO (XI XH))))))))
                      else v_diff model
               | _ :: _ -> v_bad)
            | _ -> v_bad)
         | XH -> v_bad)))

(** val sum16 : n list -> n **)

let rec sum16 = function
| [] -> N0
| h :: l0 ->
  (match l0 with
   | [] -> N.mul h (Npos (XO (XO (XO (XO (XO (XO (XO (XO XH)))))))))
   | l :: r ->
     N.add
       (N.add (N.mul h (Npos (XO (XO (XO (XO (XO (XO (XO (XO XH)))))))))) l)
       (sum16 r))

(** val fold16 : n -> n **)

let fold16 s =
  let s1 =
    N.add
      (N.modulo s (Npos (XO (XO (XO (XO (XO (XO (XO (XO (XO (XO (XO (XO (XO
        (XO (XO (XO XH))))))))))))))))))
      (N.div s (Npos (XO (XO (XO (XO (XO (XO (XO (XO (XO (XO (XO (XO (XO (XO
        (XO (XO XH))))))))))))))))))
  in
  N.add
    (N.modulo s1 (Npos (XO (XO (XO (XO (XO (XO (XO (XO (XO (XO (XO (XO (XO
      (XO (XO (XO XH))))))))))))))))))
    (N.div s1 (Npos (XO (XO (XO (XO (XO (XO (XO (XO (XO (XO (XO (XO (XO (XO
      (XO (XO XH))))))))))))))))))

(** val icmp6_cksum_ok : n list -> n list -> n list -> bool **)

let icmp6_cksum_ok src dst b =
  N.eqb
    (fold16
      (sum16
        (app src
          (app dst
            (app (be32 (lenN b))
              (app (N0 :: (N0 :: (N0 :: ((Npos (XO (XI (XO (XI (XI
                XH)))))) :: [])))) b)))))) (Npos (XI (XI (XI (XI (XI (XI (XI
    (XI (XI (XI (XI (XI (XI (XI (XI XH))))))))))))))))

(** val is_linklocal : n list -> bool **)

let is_linklocal = function
| [] -> false
| n0 :: l ->
  (match n0 with
   | N0 -> false
   | Npos p0 ->
     (match p0 with
      | XO p1 ->
        (match p1 with
         | XI p2 ->
           (match p2 with
            | XI p3 ->
              (match p3 with
               | XI p4 ->
                 (match p4 with
                  | XI p5 ->
                    (match p5 with
                     | XI p6 ->
                       (match p6 with
                        | XI p7 ->
                          (match p7 with
                           | XH ->
                             (match l with
                              | [] -> false
                              | n1 :: r ->
                                (match n1 with
                                 | N0 -> false
                                 | Npos p8 ->
                                   (match p8 with
                                    | XO p9 ->
                                      (match p9 with
                                       | XO p10 ->
                                         (match p10 with
                                          | XO p11 ->
                                            (match p11 with
                                             | XO p12 ->
                                               (match p12 with
                                                | XO p13 ->
                                                  (match p13 with
                                                   | XO p14 ->
                                                     (match p14 with
                                                      | XO p15 ->
                                                        (match p15 with
                                                         | XH ->
                                                           (&&)
                                                             (all_zero
                                                               (takeN (Npos
                                                                 (XO (XI
                                                                 XH))) r))
                                                             (N.eqb (lenN r)
                                                               (Npos (XO (XI
                                                               (XI XH)))))
                                                         | _ -> false)
                                                      | _ -> false)
                                                   | _ -> false)
                                                | _ -> false)
                                             | _ -> false)
                                          | _ -> false)
                                       | _ -> false)
                                    | _ -> false)))
                           | _ -> false)
                        | _ -> false)
                     | _ -> false)
                  | _ -> false)
               | _ -> false)
            | _ -> false)
         | _ -> false)
      | _ -> false))

(** val all_nodes : n list **)

let all_nodes =
  (Npos (XI (XI (XI (XI (XI (XI (XI XH)))))))) :: ((Npos (XO
    XH)) :: (N0 :: (N0 :: (N0 :: (N0 :: (N0 :: (N0 :: (N0 :: (N0 :: (N0 :: (N0 :: (N0 :: (N0 :: (N0 :: ((Npos
    XH) :: [])))))))))))))))

(** val zero_cksum : n list -> n list **)

let zero_cksum b = match b with
| [] -> b
| t :: l ->
  (match l with
   | [] -> b
   | c :: l0 ->
     (match l0 with
      | [] -> b
      | _ :: l1 ->
        (match l1 with
         | [] -> b
         | _ :: r -> t :: (c :: (N0 :: (N0 :: r))))))

(** val check_wire : top -> intf -> env -> n list -> n list **)

let check_wire t i e = function
| [] -> v_bad
| n0 :: w ->
  (match n0 with
   | N0 -> (match w with
            | [] -> v_diff (N0 :: [])
            | _ :: _ -> v_bad)
   | Npos p0 ->
     (match p0 with
      | XH ->
        (match pbind (p_take (Npos (XO (XO (XO (XO XH)))))) (fun src ->
                 pbind (p_take (Npos (XO (XO (XO (XO XH)))))) (fun dst ->
                   pbind p_n (fun hl ->
                     pbind (p_take (Npos (XO (XO (XO (XO XH))))))
                       (fun ifll ->
                       pbind (p_take (Npos (XO (XO (XO (XO XH))))))
                         (fun sol ->
                         pbind p_str (fun b ->
                           pret (((((src, dst), hl), ifll), sol), b))))))) w with
         | Some p1 ->
           let (p2, l) = p1 in
           let (p3, b) = p2 in
           let (p4, sol) = p3 in
           let (p5, ifll) = p4 in
           let (p6, hl) = p5 in
           let (src, dst) = p6 in
           (match l with
            | [] ->
              if negb (lengths_ok b)
              then v_viol (Npos (XO XH))
              else if negb (reserved_zero b)
                   then v_viol (Npos (XI XH))
                   else (match rfc_decode b with
                         | Some x ->
                           if negb (rfc_ra_eqb x (expected t i e))
                           then v_viol (Npos (XI (XI XH)))
                           else if negb
                                     ((&&)
                                       ((&&)
                                         ((&&)
                                           (N.eqb hl (Npos (XI (XI (XI (XI
                                             (XI (XI (XI XH)))))))))
                                           (bytes_eqb src ifll))
                                         (is_linklocal src))
                                       (icmp6_cksum_ok src dst b))
                                then v_viol (Npos (XO (XO (XO XH))))
                                else if negb
                                          (list_eqb N.eqb
                                            (N0 :: (put_bytes (zero_cksum b)))
                                            (model_out (build t i e)))
                                     then v_diff (model_out (build t i e))
                                     else if bytes_eqb dst sol
                                          then v_ok (Npos (XO (XO (XI (XI (XO
                                                 (XI (XO (XO XH)))))))))
                                          else if bytes_eqb dst all_nodes
                                               then v_ok (Npos (XI (XO (XI
                                                      (XI (XO (XI (XO (XO
                                                      XH)))))))))
                                               else v_diff ((Npos XH) :: sol)
                         | None -> v_viol (Npos (XI (XI XH))))
            | _ :: _ -> v_bad)
         | None -> v_bad)
      | _ -> v_bad))

(** val check_C17 : n list -> n list **)

let check_C17 = function
| [] -> v_bad
| kind :: r ->
  (match kind with
   | N0 ->
     if negb ((||) (N.eqb kind (Npos XH)) (N.eqb kind (Npos (XO XH))))
     then v_bad
     else (match pbind p_top (fun t ->
                   pbind p_intf (fun i ->
                     pbind p_env (fun e -> pret ((t, i), e)))) r with
           | Some p0 ->
             let (p1, impl) = p0 in
             let (p2, e) = p1 in let (t, i) = p2 in check_cfg kind t i e impl
           | None -> v_bad)
   | Npos p0 ->
     (match p0 with
      | XI p1 ->
        (match p1 with
         | XI _ ->
           if negb ((||) (N.eqb kind (Npos XH)) (N.eqb kind (Npos (XO XH))))
           then v_bad
           else (match pbind p_top (fun t ->
                         pbind p_intf (fun i ->
                           pbind p_env (fun e -> pret ((t, i), e)))) r with
                 | Some p2 ->
                   let (p3, impl) = p2 in
                   let (p4, e) = p3 in
                   let (t, i) = p4 in check_cfg kind t i e impl
                 | None -> v_bad)
         | XO _ ->
           if negb ((||) (N.eqb kind (Npos XH)) (N.eqb kind (Npos (XO XH))))
           then v_bad
           else (match pbind p_top (fun t ->
                         pbind p_intf (fun i ->
                           pbind p_env (fun e -> pret ((t, i), e)))) r with
                 | Some p2 ->
                   let (p3, impl) = p2 in
                   let (p4, e) = p3 in
                   let (t, i) = p4 in check_cfg kind t i e impl
                 | None -> v_bad)
         | XH ->
           (match pbind p_top (fun t ->
                    pbind p_intf (fun i ->
                      pbind p_env (fun e -> pret ((t, i), e)))) r with
            | Some p2 ->
              let (p3, w) = p2 in
              let (p4, e) = p3 in let (t, i) = p4 in check_wire t i e w
            | None -> v_bad))
      | XO _ ->
        if negb ((||) (N.eqb kind (Npos XH)) (N.eqb kind (Npos (XO XH))))
        then v_bad
        else (match pbind p_top (fun t ->
                      pbind p_intf (fun i ->
                        pbind p_env (fun e -> pret ((t, i), e)))) r with
              | Some p1 ->
                let (p2, impl) = p1 in
                let (p3, e) = p2 in
                let (t, i) = p3 in check_cfg kind t i e impl
              | None -> v_bad)
      | XH ->
        if negb ((||) (N.eqb kind (Npos XH)) (N.eqb kind (Npos (XO XH))))
        then v_bad
        else (match pbind p_top (fun t ->
                      pbind p_intf (fun i ->
                        pbind p_env (fun e -> pret ((t, i), e)))) r with
              | Some p1 ->
                let (p2, impl) = p1 in
                let (p3, e) = p2 in
                let (t, i) = p3 in check_cfg kind t i e impl
              | None -> v_bad)))

Require Import Erbium.Model.EntryC17.
Require ExtrOcamlBasic.
Extraction "m.ml" check_C17.

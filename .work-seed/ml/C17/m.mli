
val negb : bool -> bool

type nat =
| O
| S of nat

val fst : ('a1 * 'a2) -> 'a1

val snd : ('a1 * 'a2) -> 'a2

val length : 'a1 list -> nat

val app : 'a1 list -> 'a1 list -> 'a1 list

type comparison =
| Eq
| Lt
| Gt

val add : nat -> nat -> nat

val eqb : bool -> bool -> bool

val rev : 'a1 list -> 'a1 list

val concat : 'a1 list list -> 'a1 list

val map : ('a1 -> 'a2) -> 'a1 list -> 'a2 list

val flat_map : ('a1 -> 'a2 list) -> 'a1 list -> 'a2 list

val existsb : ('a1 -> bool) -> 'a1 list -> bool

val forallb : ('a1 -> bool) -> 'a1 list -> bool

val filter : ('a1 -> bool) -> 'a1 list -> 'a1 list

val firstn : nat -> 'a1 list -> 'a1 list

val skipn : nat -> 'a1 list -> 'a1 list

val repeat : 'a1 -> nat -> 'a1 list

type positive =
| XI of positive
| XO of positive
| XH

type n =
| N0
| Npos of positive

module Pos :
 sig
  type mask =
  | IsNul
  | IsPos of positive
  | IsNeg
 end

module Coq_Pos :
 sig
  val succ : positive -> positive

  val add : positive -> positive -> positive

  val add_carry : positive -> positive -> positive

  val pred_double : positive -> positive

  type mask = Pos.mask =
  | IsNul
  | IsPos of positive
  | IsNeg

  val succ_double_mask : mask -> mask

  val double_mask : mask -> mask

  val double_pred_mask : positive -> mask

  val sub_mask : positive -> positive -> mask

  val sub_mask_carry : positive -> positive -> mask

  val mul : positive -> positive -> positive

  val iter : ('a1 -> 'a1) -> 'a1 -> positive -> 'a1

  val pow : positive -> positive -> positive

  val compare_cont : comparison -> positive -> positive -> comparison

  val compare : positive -> positive -> comparison

  val eqb : positive -> positive -> bool

  val iter_op : ('a1 -> 'a1 -> 'a1) -> positive -> 'a1 -> 'a1

  val to_nat : positive -> nat

  val of_succ_nat : nat -> positive
 end

module N :
 sig
  val succ_double : n -> n

  val double : n -> n

  val add : n -> n -> n

  val sub : n -> n -> n

  val mul : n -> n -> n

  val compare : n -> n -> comparison

  val eqb : n -> n -> bool

  val leb : n -> n -> bool

  val ltb : n -> n -> bool

  val min : n -> n -> n

  val pow : n -> n -> n

  val pos_div_eucl : positive -> n -> n * n

  val div_eucl : n -> n -> n * n

  val div : n -> n -> n

  val modulo : n -> n -> n

  val to_nat : n -> nat

  val of_nat : nat -> n
 end

type panic_kind =
| IndexOOB
| Overflow
| UnwrapNone
| Assert
| Unreachable

type 'a outcome =
| Ok of 'a
| Err of n
| Panic of panic_kind

val pow2 : n -> n

val cast : n -> n -> n

val byte_ok : n -> bool

val bytes_ok : n list -> bool

val be16 : n -> n list

val be32 : n -> n list

val lenN : 'a1 list -> n

val takeN : n -> 'a1 list -> 'a1 list

val dropN : n -> 'a1 list -> 'a1 list

val repeatN : 'a1 -> n -> 'a1 list

val list_eqb : ('a1 -> 'a1 -> bool) -> 'a1 list -> 'a1 list -> bool

val bytes_eqb : n list -> n list -> bool

val tok_take : n -> n list -> (n list * n list) option

val tok_one : n list -> (n * n list) option

val tok_bytes : n list -> (n list * n list) option

val put_bytes : n list -> n list

val v_ok : n -> n list

val v_diff : n list -> n list

val v_viol : n -> n list

val v_bad : n list

type dur = { d_secs : n; d_nanos : n }

val secs : n -> dur

val as_secs : dur -> n

val as_millis : dur -> n

type 'a cv =
| NotSpecified
| DontSet
| Value of 'a

val cv_unwrap_or : 'a1 cv -> 'a1 -> 'a1 option

val cv_or : 'a1 cv -> 'a1 option -> 'a1 option

val cv_always_unwrap_or : 'a1 cv -> 'a1 -> 'a1

type prefix = { p_addr : n list; p_len : n; p_onlink : bool; p_auto : 
                bool; p_valid : dur; p_preferred : dur }

type pref64 = { n_lifetime : dur; n_prefix : n list; n_len : n }

type intf = { i_hoplimit : n; i_managed : bool; i_other : bool;
              i_lifetime : dur cv; i_reachable : dur; i_retrans : dur;
              i_prefixes : prefix list; i_rdnss_lifetime : dur cv;
              i_rdnss : n list list cv; i_dnssl_lifetime : dur cv;
              i_dnssl : n list list cv; i_captive : n list cv;
              i_pref64 : pref64 option }

type top = { t_dns_servers : (n * n list) list; t_dns_search : n list list;
             t_captive : n list option }

type env = { e_ll : n list option; e_mtu : n option; e_self6 : n list;
             e_lifetime : dur }

type ndopt =
| OSourceLL of n list
| OMtu of n
| OPrefix of n * bool * bool * dur * dur * n list
| ORdnss of dur * n list list
| ODnssl of dur * n list list
| OPref64 of dur * n * n list
| OCaptive of n list

type radv = { a_hop : n; a_managed : bool; a_other : bool; a_lifetime : 
              dur; a_reachable : dur; a_retrans : dur; a_options : ndopt list }

val unspecified6 : n list

val is_unspecified : n list -> bool

val subst_self6 : n list -> n list -> n list

val top_rdnss : top -> n list list

val default_dns_lifetime : dur

val is_nil : 'a1 list -> bool

val build_options : top -> intf -> env -> ndopt list

val build : top -> intf -> env -> radv

val clamp : n -> n -> n

val mask_byte : n -> n -> n

val mask_bytes : n -> n list -> n list

val plc_of_len : n -> n option

val split_on : n -> n list -> n list list

val enc_label : n list -> n list

val enc_domain : n list -> n list

val pad8 : n -> n

val enc_domains : n list list -> n list

val label_encodable : n list -> bool

val domain_encodable : n list -> bool

val enc_url : n list -> n list

val div_ceil : n -> n -> n

val enc_opt : ndopt -> n list

val opt_panics : ndopt -> panic_kind option

val first_panic : ndopt list -> panic_kind option

val enc_header : radv -> n list

val enc_radv : radv -> n list

val serialise : radv -> n list outcome

type rfc_prefix = { rp_len : n; rp_onlink : bool; rp_auto : bool;
                    rp_valid : n; rp_preferred : n; rp_prefix : n list }

type rfc_opt =
| RSll of n list
| RMtu of n
| RPrefix of rfc_prefix
| RRdnss of n * n list list
| RDnssl of n * n list list list
| RPref64 of n * n * n list
| RCaptive of n list

type rfc_ra = { r_hop : n; r_managed : bool; r_other : bool; r_lifetime : 
                n; r_reachable : n; r_retrans : n; r_sll : n list list;
                r_mtu : n list; r_prefixes : rfc_prefix list;
                r_rdnss : (n * n list list) list;
                r_dnssl : (n * n list list list) list;
                r_pref64 : ((n * n) * n list) list; r_captive : n list list }

val u16_at : n list -> n

val u32_at : n list -> n

val all_zero : n list -> bool

val tail_bits_zero : n -> n list -> bool

val chunks16 : nat -> n list -> n list list option

val name_labels : nat -> n list -> (n list list * n list) option

val dnssl_names : nat -> n list -> n list list list option

val strip_zeros_rev : n list -> n list

val strip_trailing_zeros : n list -> n list

val plc_len : n -> n option

val reserved_body : n -> n list -> bool

val rfc_opt_body : n -> n -> n list -> rfc_opt option option

val rfc_options : nat -> n list -> rfc_opt list option

val collect : n -> bool -> bool -> n -> n -> n -> rfc_opt list -> rfc_ra

val rfc_decode : n list -> rfc_ra option

val options_tile : nat -> n list -> bool

val lengths_ok : n list -> bool

val reserved_opts : nat -> n list -> bool

val reserved_zero : n list -> bool

val sat : n -> n -> n

val network : n -> n list -> n list

val tri : 'a1 cv -> 'a1 option -> 'a1 option

val tri_or : 'a1 cv -> 'a1 -> 'a1

val exp_prefix : prefix -> rfc_prefix

val v6_servers : top -> n list list

val self6_subst : n list -> n list -> n list

val name_ok : n list -> bool

val nat64_len_ok : n -> bool

val pref64_lifetime : n -> n

val expected : top -> intf -> env -> rfc_ra

val addr_ok : n list -> bool

val label_ok : n list -> bool

val domain_ok : n list -> bool

val url_ok : n list -> bool

val prefix_ok : prefix -> bool

val pref64_ok : pref64 -> bool

val cv_forall : ('a1 -> bool) -> 'a1 cv -> bool

val opt_forall : ('a1 -> bool) -> 'a1 option -> bool

val dnssl_fits : n list list -> bool

val wf_top : top -> bool

val wf_intf : intf -> bool

val wf_env : env -> bool

val wf_cfg : top -> intf -> env -> bool

type 'a p = n list -> ('a * n list) option

val pret : 'a1 -> 'a1 p

val pbind : 'a1 p -> ('a1 -> 'a2 p) -> 'a2 p

val p_n : n p

val p_bool : bool p

val p_take : n -> n list p

val p_str : n list p

val p_dur : dur p

val p_opt : 'a1 p -> 'a1 option p

val p_cv : 'a1 p -> 'a1 cv p

val p_rep : 'a1 p -> nat -> 'a1 list p

val p_list : 'a1 p -> 'a1 list p

val p_server : (n * n list) p

val p_top : top p

val p_prefix : prefix p

val p_pref64 : pref64 p

val p_intf : intf p

val p_env : env p

val lb_eqb : n list list -> n list list -> bool

val rfc_prefix_eqb : rfc_prefix -> rfc_prefix -> bool

val rfc_ra_eqb : rfc_ra -> rfc_ra -> bool

val has_bad_domain : top -> intf -> bool

val loader_rejects : intf -> bool

val over : n -> n -> bool

val clamped : top -> intf -> env -> bool

val tag_of : n -> top -> intf -> env -> rfc_ra -> n

val model_out : radv -> n list

val check_cfg : n -> top -> intf -> env -> n list -> n list

val sum16 : n list -> n

val fold16 : n -> n

val icmp6_cksum_ok : n list -> n list -> n list -> bool

val is_linklocal : n list -> bool

val all_nodes : n list

val zero_cksum : n list -> n list

val check_wire : top -> intf -> env -> n list -> n list

val check_C17 : n list -> n list

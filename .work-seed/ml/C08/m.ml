
(** val negb : bool -> bool **)

let negb = function
| true -> false
| false -> true

type nat =
| O
| S of nat

(** val fst : ('a1 * 'a2) -> 'a1 **)

let fst = function
| (x, _) -> x

(** val snd : ('a1 * 'a2) -> 'a2 **)

let snd = function
| (_, y) -> y

(** val length : 'a1 list -> nat **)

let rec length = function
| [] -> O
| _ :: l' -> S (length l')

type comparison =
| Eq
| Lt
| Gt

module Coq__1 = struct
 (** val add : nat -> nat -> nat **)
 let rec add n0 m =
   match n0 with
   | O -> m
   | S p -> S (add p m)
end
include Coq__1

(** val eqb : bool -> bool -> bool **)

let eqb b1 b2 =
  if b1 then b2 else if b2 then false else true

(** val fold_left : ('a1 -> 'a2 -> 'a1) -> 'a2 list -> 'a1 -> 'a1 **)

let rec fold_left f l a0 =
  match l with
  | [] -> a0
  | b :: t -> fold_left f t (f a0 b)

(** val existsb : ('a1 -> bool) -> 'a1 list -> bool **)

let rec existsb f = function
| [] -> false
| a :: l0 -> (||) (f a) (existsb f l0)

(** val forallb : ('a1 -> bool) -> 'a1 list -> bool **)

let rec forallb f = function
| [] -> true
| a :: l0 -> (&&) (f a) (forallb f l0)

(** val firstn : nat -> 'a1 list -> 'a1 list **)

let rec firstn n0 l =
  match n0 with
  | O -> []
  | S n1 -> (match l with
             | [] -> []
             | a :: l0 -> a :: (firstn n1 l0))

(** val skipn : nat -> 'a1 list -> 'a1 list **)

let rec skipn n0 l =
  match n0 with
  | O -> l
  | S n1 -> (match l with
             | [] -> []
             | _ :: l0 -> skipn n1 l0)

type positive =
| XI of positive
| XO of positive
| XH

type n =
| N0
| Npos of positive

module Pos =
 struct
  type mask =
  | IsNul
  | IsPos of positive
  | IsNeg
 end

module Coq_Pos =
 struct
  (** val succ : positive -> positive **)

  let rec succ = function
  | XI p -> XO (succ p)
  | XO p -> XI p
  | XH -> XO XH

  (** val add : positive -> positive -> positive **)

  let rec add x y =
    match x with
    | XI p ->
      (match y with
       | XI q -> XO (add_carry p q)
       | XO q -> XI (add p q)
       | XH -> XO (succ p))
    | XO p ->
      (match y with
       | XI q -> XI (add p q)
       | XO q -> XO (add p q)
       | XH -> XI p)
    | XH -> (match y with
             | XI q -> XO (succ q)
             | XO q -> XI q
             | XH -> XO XH)

  (** val add_carry : positive -> positive -> positive **)

  and add_carry x y =
    match x with
    | XI p ->
      (match y with
       | XI q -> XI (add_carry p q)
       | XO q -> XO (add_carry p q)
       | XH -> XI (succ p))
    | XO p ->
      (match y with
       | XI q -> XO (add_carry p q)
       | XO q -> XI (add p q)
       | XH -> XO (succ p))
    | XH ->
      (match y with
       | XI q -> XI (succ q)
       | XO q -> XO (succ q)
       | XH -> XI XH)

  (** val pred_double : positive -> positive **)

  let rec pred_double = function
  | XI p -> XI (XO p)
  | XO p -> XI (pred_double p)
  | XH -> XH

  (** val pred_N : positive -> n **)

  let pred_N = function
  | XI p -> Npos (XO p)
  | XO p -> Npos (pred_double p)
  | XH -> N0

  type mask = Pos.mask =
  | IsNul
  | IsPos of positive
  | IsNeg

  (** val succ_double_mask : mask -> mask **)

  let succ_double_mask = function
  | IsNul -> IsPos XH
  | IsPos p -> IsPos (XI p)
  | IsNeg -> IsNeg

  (** val double_mask : mask -> mask **)

  let double_mask = function
  | IsPos p -> IsPos (XO p)
  | x0 -> x0

  (** val double_pred_mask : positive -> mask **)

  let double_pred_mask = function
  | XI p -> IsPos (XO (XO p))
  | XO p -> IsPos (XO (pred_double p))
  | XH -> IsNul

  (** val sub_mask : positive -> positive -> mask **)

  let rec sub_mask x y =
    match x with
    | XI p ->
      (match y with
       | XI q -> double_mask (sub_mask p q)
       | XO q -> succ_double_mask (sub_mask p q)
       | XH -> IsPos (XO p))
    | XO p ->
      (match y with
       | XI q -> succ_double_mask (sub_mask_carry p q)
       | XO q -> double_mask (sub_mask p q)
       | XH -> IsPos (pred_double p))
    | XH -> (match y with
             | XH -> IsNul
             | _ -> IsNeg)

  (** val sub_mask_carry : positive -> positive -> mask **)

  and sub_mask_carry x y =
    match x with
    | XI p ->
      (match y with
       | XI q -> succ_double_mask (sub_mask_carry p q)
       | XO q -> double_mask (sub_mask p q)
       | XH -> IsPos (pred_double p))
    | XO p ->
      (match y with
       | XI q -> double_mask (sub_mask_carry p q)
       | XO q -> succ_double_mask (sub_mask_carry p q)
       | XH -> double_pred_mask p)
    | XH -> IsNeg

  (** val mul : positive -> positive -> positive **)

  let rec mul x y =
    match x with
    | XI p -> add y (XO (mul p y))
    | XO p -> XO (mul p y)
    | XH -> y

  (** val iter : ('a1 -> 'a1) -> 'a1 -> positive -> 'a1 **)

  let rec iter f x = function
  | XI n' -> f (iter f (iter f x n') n')
  | XO n' -> iter f (iter f x n') n'
  | XH -> f x

  (** val pow : positive -> positive -> positive **)

  let pow x =
    iter (mul x) XH

  (** val compare_cont : comparison -> positive -> positive -> comparison **)

  let rec compare_cont r x y =
    match x with
    | XI p ->
      (match y with
       | XI q -> compare_cont r p q
       | XO q -> compare_cont Gt p q
       | XH -> Gt)
    | XO p ->
      (match y with
       | XI q -> compare_cont Lt p q
       | XO q -> compare_cont r p q
       | XH -> Gt)
    | XH -> (match y with
             | XH -> r
             | _ -> Lt)

  (** val compare : positive -> positive -> comparison **)

  let compare =
    compare_cont Eq

  (** val eqb : positive -> positive -> bool **)

  let rec eqb p q =
    match p with
    | XI p0 -> (match q with
                | XI q0 -> eqb p0 q0
                | _ -> false)
    | XO p0 -> (match q with
                | XO q0 -> eqb p0 q0
                | _ -> false)
    | XH -> (match q with
             | XH -> true
             | _ -> false)

  (** val coq_Nsucc_double : n -> n **)

  let coq_Nsucc_double = function
  | N0 -> Npos XH
  | Npos p -> Npos (XI p)

  (** val coq_Ndouble : n -> n **)

  let coq_Ndouble = function
  | N0 -> N0
  | Npos p -> Npos (XO p)

  (** val coq_lor : positive -> positive -> positive **)

  let rec coq_lor p q =
    match p with
    | XI p0 ->
      (match q with
       | XI q0 -> XI (coq_lor p0 q0)
       | XO q0 -> XI (coq_lor p0 q0)
       | XH -> p)
    | XO p0 ->
      (match q with
       | XI q0 -> XI (coq_lor p0 q0)
       | XO q0 -> XO (coq_lor p0 q0)
       | XH -> XI p0)
    | XH -> (match q with
             | XO q0 -> XI q0
             | _ -> q)

  (** val coq_land : positive -> positive -> n **)

  let rec coq_land p q =
    match p with
    | XI p0 ->
      (match q with
       | XI q0 -> coq_Nsucc_double (coq_land p0 q0)
       | XO q0 -> coq_Ndouble (coq_land p0 q0)
       | XH -> Npos XH)
    | XO p0 ->
      (match q with
       | XI q0 -> coq_Ndouble (coq_land p0 q0)
       | XO q0 -> coq_Ndouble (coq_land p0 q0)
       | XH -> N0)
    | XH -> (match q with
             | XO _ -> N0
             | _ -> Npos XH)

  (** val coq_lxor : positive -> positive -> n **)

  let rec coq_lxor p q =
    match p with
    | XI p0 ->
      (match q with
       | XI q0 -> coq_Ndouble (coq_lxor p0 q0)
       | XO q0 -> coq_Nsucc_double (coq_lxor p0 q0)
       | XH -> Npos (XO p0))
    | XO p0 ->
      (match q with
       | XI q0 -> coq_Nsucc_double (coq_lxor p0 q0)
       | XO q0 -> coq_Ndouble (coq_lxor p0 q0)
       | XH -> Npos (XI p0))
    | XH ->
      (match q with
       | XI q0 -> Npos (XO q0)
       | XO q0 -> Npos (XI q0)
       | XH -> N0)

  (** val shiftl : positive -> n -> positive **)

  let shiftl p = function
  | N0 -> p
  | Npos n1 -> iter (fun x -> XO x) p n1

  (** val iter_op : ('a1 -> 'a1 -> 'a1) -> positive -> 'a1 -> 'a1 **)

  let rec iter_op op0 p a =
    match p with
    | XI p0 -> op0 a (iter_op op0 p0 (op0 a a))
    | XO p0 -> iter_op op0 p0 (op0 a a)
    | XH -> a

  (** val to_nat : positive -> nat **)

  let to_nat x =
    iter_op Coq__1.add x (S O)

  (** val of_succ_nat : nat -> positive **)

  let rec of_succ_nat = function
  | O -> XH
  | S x -> succ (of_succ_nat x)
 end

module N =
 struct
  (** val pred : n -> n **)

  let pred = function
  | N0 -> N0
  | Npos p -> Coq_Pos.pred_N p

  (** val add : n -> n -> n **)

  let add n0 m =
    match n0 with
    | N0 -> m
    | Npos p -> (match m with
                 | N0 -> n0
                 | Npos q -> Npos (Coq_Pos.add p q))

  (** val sub : n -> n -> n **)

  let sub n0 m =
    match n0 with
    | N0 -> N0
    | Npos n' ->
      (match m with
       | N0 -> n0
       | Npos m' ->
         (match Coq_Pos.sub_mask n' m' with
          | Coq_Pos.IsPos p -> Npos p
          | _ -> N0))

  (** val mul : n -> n -> n **)

  let mul n0 m =
    match n0 with
    | N0 -> N0
    | Npos p -> (match m with
                 | N0 -> N0
                 | Npos q -> Npos (Coq_Pos.mul p q))

  (** val compare : n -> n -> comparison **)

  let compare n0 m =
    match n0 with
    | N0 -> (match m with
             | N0 -> Eq
             | Npos _ -> Lt)
    | Npos n' -> (match m with
                  | N0 -> Gt
                  | Npos m' -> Coq_Pos.compare n' m')

  (** val eqb : n -> n -> bool **)

  let eqb n0 m =
    match n0 with
    | N0 -> (match m with
             | N0 -> true
             | Npos _ -> false)
    | Npos p -> (match m with
                 | N0 -> false
                 | Npos q -> Coq_Pos.eqb p q)

  (** val leb : n -> n -> bool **)

  let leb x y =
    match compare x y with
    | Gt -> false
    | _ -> true

  (** val ltb : n -> n -> bool **)

  let ltb x y =
    match compare x y with
    | Lt -> true
    | _ -> false

  (** val min : n -> n -> n **)

  let min n0 n' =
    match compare n0 n' with
    | Gt -> n'
    | _ -> n0

  (** val div2 : n -> n **)

  let div2 = function
  | N0 -> N0
  | Npos p0 -> (match p0 with
                | XI p -> Npos p
                | XO p -> Npos p
                | XH -> N0)

  (** val pow : n -> n -> n **)

  let pow n0 = function
  | N0 -> Npos XH
  | Npos p0 -> (match n0 with
                | N0 -> N0
                | Npos q -> Npos (Coq_Pos.pow q p0))

  (** val coq_lor : n -> n -> n **)

  let coq_lor n0 m =
    match n0 with
    | N0 -> m
    | Npos p -> (match m with
                 | N0 -> n0
                 | Npos q -> Npos (Coq_Pos.coq_lor p q))

  (** val coq_land : n -> n -> n **)

  let coq_land n0 m =
    match n0 with
    | N0 -> N0
    | Npos p -> (match m with
                 | N0 -> N0
                 | Npos q -> Coq_Pos.coq_land p q)

  (** val coq_lxor : n -> n -> n **)

  let coq_lxor n0 m =
    match n0 with
    | N0 -> m
    | Npos p -> (match m with
                 | N0 -> n0
                 | Npos q -> Coq_Pos.coq_lxor p q)

  (** val shiftl : n -> n -> n **)

  let shiftl a n0 =
    match a with
    | N0 -> N0
    | Npos a0 -> Npos (Coq_Pos.shiftl a0 n0)

  (** val shiftr : n -> n -> n **)

  let shiftr a = function
  | N0 -> a
  | Npos p -> Coq_Pos.iter div2 a p

  (** val to_nat : n -> nat **)

  let to_nat = function
  | N0 -> O
  | Npos p -> Coq_Pos.to_nat p

  (** val of_nat : nat -> n **)

  let of_nat = function
  | O -> N0
  | S n' -> Npos (Coq_Pos.of_succ_nat n')

  (** val b2n : bool -> n **)

  let b2n = function
  | true -> Npos XH
  | false -> N0

  (** val ones : n -> n **)

  let ones n0 =
    pred (shiftl (Npos XH) n0)
 end

(** val lenN : 'a1 list -> n **)

let lenN l =
  N.of_nat (length l)

(** val takeN : n -> 'a1 list -> 'a1 list **)

let takeN n0 l =
  firstn (N.to_nat n0) l

(** val dropN : n -> 'a1 list -> 'a1 list **)

let dropN n0 l =
  skipn (N.to_nat n0) l

(** val tok_take : n -> n list -> (n list * n list) option **)

let tok_take n0 ts =
  if N.leb n0 (lenN ts) then Some ((takeN n0 ts), (dropN n0 ts)) else None

(** val tok_bytes : n list -> (n list * n list) option **)

let tok_bytes = function
| [] -> None
| n0 :: r -> tok_take n0 r

(** val v_ok : n -> n list **)

let v_ok tag =
  N0 :: (tag :: [])

(** val v_diff : n list -> n list **)

let v_diff expected =
  (Npos XH) :: expected

(** val v_viol : n -> n list **)

let v_viol p =
  (Npos (XO XH)) :: (p :: [])

(** val v_bad : n list **)

let v_bad =
  (Npos (XI (XO (XO XH)))) :: []

type addr =
| A4 of n
| A6 of n
| AUnix

type prefix =
| P4 of n * n
| P6 of n * n

type perm = { p_dns : bool; p_http : bool; p_metrics : bool; p_leases : bool }

type rule = { r_subnet : prefix list option; r_unix : bool option;
              r_perm : perm }

type op =
| OpDns
| OpHttp
| OpLeases
| OpMetrics

type decision =
| Granted
| NotAuthenticated
| NotAuthorised

(** val wf_addr : addr -> bool **)

let wf_addr = function
| A4 x -> N.ltb x (N.pow (Npos (XO XH)) (Npos (XO (XO (XO (XO (XO XH)))))))
| A6 x ->
  N.ltb x (N.pow (Npos (XO XH)) (Npos (XO (XO (XO (XO (XO (XO (XO XH)))))))))
| AUnix -> true

(** val wf_prefix : prefix -> bool **)

let wf_prefix = function
| P4 (a, l) ->
  (&&) (N.ltb a (N.pow (Npos (XO XH)) (Npos (XO (XO (XO (XO (XO XH))))))))
    (N.leb l (Npos (XO (XO (XO (XO (XO XH)))))))
| P6 (a, l) ->
  (&&)
    (N.ltb a
      (N.pow (Npos (XO XH)) (Npos (XO (XO (XO (XO (XO (XO (XO XH))))))))))
    (N.leb l (Npos (XO (XO (XO (XO (XO (XO (XO XH)))))))))

(** val wf_rule : rule -> bool **)

let wf_rule r =
  match r.r_subnet with
  | Some ps -> forallb wf_prefix ps
  | None -> true

(** val wf_rules : rule list -> bool **)

let wf_rules rs =
  forallb wf_rule rs

(** val netmask : n -> n -> n **)

let netmask w len =
  if N.ltb len w
  then N.coq_lxor (N.ones w) (N.shiftr (N.ones w) len)
  else N.ones w

(** val contains_w : n -> n -> n -> n -> bool **)

let contains_w w a len x =
  N.eqb (N.coq_land x (netmask w len)) (N.coq_land a (netmask w len))

(** val mAPPED : n **)

let mAPPED =
  N.shiftl (Npos (XI (XI (XI (XI (XI (XI (XI (XI (XI (XI (XI (XI (XI (XI (XI
    XH)))))))))))))))) (Npos (XO (XO (XO (XO (XO XH))))))

(** val to_mapped : n -> n **)

let to_mapped x =
  N.coq_lor mAPPED x

(** val from_mapped : n -> n option **)

let from_mapped x =
  if N.eqb (N.shiftr x (Npos (XO (XO (XO (XO (XO XH))))))) (Npos (XI (XI (XI
       (XI (XI (XI (XI (XI (XI (XI (XI (XI (XI (XI (XI XH))))))))))))))))
  then Some (N.coq_land x (N.ones (Npos (XO (XO (XO (XO (XO XH))))))))
  else None

(** val contains : prefix -> addr -> bool **)

let contains p ip =
  match p with
  | P4 (a, l) ->
    (match ip with
     | A4 x -> contains_w (Npos (XO (XO (XO (XO (XO XH)))))) a l x
     | A6 x ->
       (match from_mapped x with
        | Some y -> contains_w (Npos (XO (XO (XO (XO (XO XH)))))) a l y
        | None -> false)
     | AUnix -> false)
  | P6 (a, l) ->
    (match ip with
     | A4 x ->
       contains_w (Npos (XO (XO (XO (XO (XO (XO (XO XH)))))))) a l
         (to_mapped x)
     | A6 x -> contains_w (Npos (XO (XO (XO (XO (XO (XO (XO XH)))))))) a l x
     | AUnix -> false)

(** val is_unix : addr -> bool **)

let is_unix = function
| AUnix -> true
| _ -> false

(** val rule_check : rule -> addr -> bool **)

let rule_check r cl =
  (&&)
    (match r.r_subnet with
     | Some ps -> existsb (fun p -> contains p cl) ps
     | None -> true)
    (match r.r_unix with
     | Some u -> eqb (is_unix cl) u
     | None -> true)

(** val check_authenticated : rule list -> addr -> perm option **)

let rec check_authenticated rs cl =
  match rs with
  | [] -> None
  | r :: rest ->
    if rule_check r cl then Some r.r_perm else check_authenticated rest cl

(** val perm_has : perm -> op -> bool **)

let perm_has p = function
| OpDns -> p.p_dns
| OpHttp -> p.p_http
| OpLeases -> p.p_leases
| OpMetrics -> p.p_metrics

(** val require : rule list -> addr -> op -> decision **)

let require rs cl o =
  match check_authenticated rs cl with
  | Some p -> if perm_has p o then Granted else NotAuthorised
  | None -> NotAuthenticated

(** val no_perm : perm **)

let no_perm =
  { p_dns = false; p_http = false; p_metrics = false; p_leases = false }

(** val add_access : perm -> n -> perm **)

let add_access p = function
| N0 ->
  { p_dns = true; p_http = p.p_http; p_metrics = p.p_metrics; p_leases =
    p.p_leases }
| Npos p0 ->
  (match p0 with
   | XI p1 ->
     (match p1 with
      | XH ->
        { p_dns = p.p_dns; p_http = p.p_http; p_metrics = true; p_leases =
          p.p_leases }
      | _ ->
        { p_dns = p.p_dns; p_http = true; p_metrics = true; p_leases = true })
   | XO p1 ->
     (match p1 with
      | XI _ ->
        { p_dns = p.p_dns; p_http = true; p_metrics = true; p_leases = true }
      | XO p2 ->
        (match p2 with
         | XH ->
           { p_dns = p.p_dns; p_http = p.p_http; p_metrics = p.p_metrics;
             p_leases = true }
         | _ ->
           { p_dns = p.p_dns; p_http = true; p_metrics = true; p_leases =
             true })
      | XH ->
        { p_dns = p.p_dns; p_http = true; p_metrics = p.p_metrics; p_leases =
          p.p_leases })
   | XH ->
     { p_dns = true; p_http = p.p_http; p_metrics = p.p_metrics; p_leases =
       p.p_leases })

(** val perm_of_accesses : n list -> perm **)

let perm_of_accesses l =
  fold_left add_access l no_perm

(** val all_perm : perm **)

let all_perm =
  { p_dns = true; p_http = true; p_metrics = true; p_leases = true }

(** val lOCALHOST4 : prefix **)

let lOCALHOST4 =
  P4 ((Npos (XO (XO (XO (XO (XO (XO (XO (XO (XO (XO (XO (XO (XO (XO (XO (XO
    (XO (XO (XO (XO (XO (XO (XO (XO (XI (XI (XI (XI (XI (XI
    XH))))))))))))))))))))))))))))))), (Npos (XO (XO (XO XH)))))

(** val lOCALHOST6 : prefix **)

let lOCALHOST6 =
  P6 ((Npos XH), (Npos (XO (XO (XO (XO (XO (XO (XO XH)))))))))

(** val default_acls : prefix list -> rule list **)

let default_acls addresses =
  { r_subnet = (Some addresses); r_unix = None; r_perm =
    all_perm } :: ({ r_subnet = (Some (lOCALHOST4 :: (lOCALHOST6 :: [])));
    r_unix = None; r_perm = all_perm } :: ({ r_subnet = None; r_unix = (Some
    true); r_perm = { p_dns = false; p_http = true; p_metrics = true;
    p_leases = true } } :: []))

(** val http_perm : bool -> n -> op **)

let http_perm get path =
  if get
  then (match path with
        | N0 -> OpHttp
        | Npos p -> (match p with
                     | XH -> OpMetrics
                     | _ -> OpLeases))
  else OpLeases

(** val http_ok_status : bool -> n -> n **)

let http_ok_status get path =
  if (&&) get (N.ltb path (Npos (XI XH)))
  then Npos (XO (XO (XO (XI (XO (XO (XI XH)))))))
  else Npos (XO (XO (XI (XO (XI (XO (XO (XI XH))))))))

(** val http_status : rule list -> addr -> bool -> n -> n **)

let http_status rs cl get path =
  match require rs cl (http_perm get path) with
  | Granted -> http_ok_status get path
  | _ -> Npos (XI (XI (XO (XO (XI (XO (XO (XI XH))))))))

type dns_outcome =
| DnsRefusedByAcl
| DnsPassedOn

(** val dns_gate : rule list -> addr -> dns_outcome **)

let dns_gate rs cl =
  match require rs cl OpDns with
  | Granted -> DnsPassedOn
  | _ -> DnsRefusedByAcl

(** val addr128 : addr -> n option **)

let addr128 = function
| A4 x ->
  Some
    (N.coq_lor
      (N.shiftl (Npos (XI (XI (XI (XI (XI (XI (XI (XI (XI (XI (XI (XI (XI (XI
        (XI XH)))))))))))))))) (Npos (XO (XO (XO (XO (XO XH))))))) x)
| A6 x -> Some x
| AUnix -> None

(** val prefix128 : prefix -> n * n **)

let prefix128 = function
| P4 (a, l) ->
  ((N.coq_lor
     (N.shiftl (Npos (XI (XI (XI (XI (XI (XI (XI (XI (XI (XI (XI (XI (XI (XI
       (XI XH)))))))))))))))) (Npos (XO (XO (XO (XO (XO XH))))))) a),
    (N.add (Npos (XO (XO (XO (XO (XO (XI XH))))))) l))
| P6 (a, l) -> (a, l)

(** val permits : rule -> op -> bool **)

let permits r o =
  perm_has r.r_perm o

(** val in_prefix_b : prefix -> addr -> bool **)

let in_prefix_b p cl =
  match addr128 cl with
  | Some x ->
    N.eqb
      (N.shiftr (fst (prefix128 p))
        (N.sub (Npos (XO (XO (XO (XO (XO (XO (XO XH))))))))
          (snd (prefix128 p))))
      (N.shiftr x
        (N.sub (Npos (XO (XO (XO (XO (XO (XO (XO XH))))))))
          (snd (prefix128 p))))
  | None -> false

(** val rule_matches_b : rule -> addr -> bool **)

let rule_matches_b r cl =
  (&&)
    (match r.r_subnet with
     | Some ps -> existsb (fun p -> in_prefix_b p cl) ps
     | None -> true)
    (match r.r_unix with
     | Some u -> eqb (is_unix cl) u
     | None -> true)

(** val first_match_b : rule list -> addr -> rule option **)

let rec first_match_b rs cl =
  match rs with
  | [] -> None
  | r :: rest -> if rule_matches_b r cl then Some r else first_match_b rest cl

(** val spec_granted : rule list -> addr -> op -> bool **)

let spec_granted rs cl o =
  match first_match_b rs cl with
  | Some r -> permits r o
  | None -> false

(** val w128 : n -> n -> n -> n -> n **)

let w128 a b c d =
  N.add
    (N.mul
      (N.add
        (N.mul
          (N.add
            (N.mul a (Npos (XO (XO (XO (XO (XO (XO (XO (XO (XO (XO (XO (XO
              (XO (XO (XO (XO (XO (XO (XO (XO (XO (XO (XO (XO (XO (XO (XO (XO
              (XO (XO (XO (XO XH)))))))))))))))))))))))))))))))))) b) (Npos
          (XO (XO (XO (XO (XO (XO (XO (XO (XO (XO (XO (XO (XO (XO (XO (XO (XO
          (XO (XO (XO (XO (XO (XO (XO (XO (XO (XO (XO (XO (XO (XO (XO
          XH)))))))))))))))))))))))))))))))))) c) (Npos (XO (XO (XO (XO (XO
      (XO (XO (XO (XO (XO (XO (XO (XO (XO (XO (XO (XO (XO (XO (XO (XO (XO (XO
      (XO (XO (XO (XO (XO (XO (XO (XO (XO XH))))))))))))))))))))))))))))))))))
    d

(** val tok_prefix : n list -> (prefix * n list) option **)

let tok_prefix = function
| [] -> None
| n0 :: l0 ->
  (match n0 with
   | N0 -> None
   | Npos p ->
     (match p with
      | XO p0 ->
        (match p0 with
         | XI p1 ->
           (match p1 with
            | XH ->
              (match l0 with
               | [] -> None
               | a :: l1 ->
                 (match l1 with
                  | [] -> None
                  | b :: l2 ->
                    (match l2 with
                     | [] -> None
                     | c :: l3 ->
                       (match l3 with
                        | [] -> None
                        | d :: l4 ->
                          (match l4 with
                           | [] -> None
                           | l :: r -> Some ((P6 ((w128 a b c d), l)), r))))))
            | _ -> None)
         | XO p1 ->
           (match p1 with
            | XH ->
              (match l0 with
               | [] -> None
               | a :: l1 ->
                 (match l1 with
                  | [] -> None
                  | l :: r -> Some ((P4 (a, l)), r)))
            | _ -> None)
         | XH -> None)
      | _ -> None))

(** val tok_addr : n list -> (addr * n list) option **)

let tok_addr = function
| [] -> None
| n0 :: r ->
  (match n0 with
   | N0 -> Some (AUnix, r)
   | Npos p ->
     (match p with
      | XO p0 ->
        (match p0 with
         | XI p1 ->
           (match p1 with
            | XH ->
              (match r with
               | [] -> None
               | a :: l ->
                 (match l with
                  | [] -> None
                  | b :: l0 ->
                    (match l0 with
                     | [] -> None
                     | c :: l1 ->
                       (match l1 with
                        | [] -> None
                        | d :: r0 -> Some ((A6 (w128 a b c d)), r0)))))
            | _ -> None)
         | XO p1 ->
           (match p1 with
            | XH -> (match r with
                     | [] -> None
                     | a :: r0 -> Some ((A4 a), r0))
            | _ -> None)
         | XH -> None)
      | _ -> None))

(** val tok_prefixes : nat -> n list -> (prefix list * n list) option **)

let rec tok_prefixes n0 ts =
  match n0 with
  | O -> Some ([], ts)
  | S k ->
    (match tok_prefix ts with
     | Some p0 ->
       let (p, r) = p0 in
       (match tok_prefixes k r with
        | Some p1 -> let (ps, r2) = p1 in Some ((p :: ps), r2)
        | None -> None)
     | None -> None)

(** val tok_rule : n list -> (rule * n list) option **)

let tok_rule = function
| [] -> None
| hs :: l ->
  (match l with
   | [] -> None
   | nsub :: r ->
     (match tok_prefixes (N.to_nat nsub) r with
      | Some p ->
        let (ps, l0) = p in
        (match l0 with
         | [] -> None
         | u :: r2 ->
           (match tok_bytes r2 with
            | Some p0 ->
              let (accs, r3) = p0 in
              Some ({ r_subnet = (if N.eqb hs N0 then None else Some ps);
              r_unix =
              (match u with
               | N0 -> None
               | Npos p1 -> (match p1 with
                             | XH -> Some false
                             | _ -> Some true)); r_perm =
              (perm_of_accesses accs) }, r3)
            | None -> None))
      | None -> None))

(** val tok_rules_n : nat -> n list -> (rule list * n list) option **)

let rec tok_rules_n n0 ts =
  match n0 with
  | O -> Some ([], ts)
  | S k ->
    (match tok_rule ts with
     | Some p ->
       let (x, r) = p in
       (match tok_rules_n k r with
        | Some p0 -> let (xs, r2) = p0 in Some ((x :: xs), r2)
        | None -> None)
     | None -> None)

(** val tok_rules : n list -> (rule list * n list) option **)

let tok_rules = function
| [] -> None
| n0 :: r -> tok_rules_n (N.to_nat n0) r

(** val op_of : n -> op **)

let op_of = function
| N0 -> OpDns
| Npos p ->
  (match p with
   | XI _ -> OpMetrics
   | XO p0 -> (match p0 with
               | XH -> OpLeases
               | _ -> OpMetrics)
   | XH -> OpHttp)

(** val decision_code : decision -> n **)

let decision_code = function
| Granted -> N0
| NotAuthenticated -> Npos XH
| NotAuthorised -> Npos (XO XH)

(** val first_idx : rule list -> addr -> n -> n option **)

let rec first_idx rs cl i =
  match rs with
  | [] -> None
  | r :: rest ->
    if rule_check r cl then Some i else first_idx rest cl (N.add i (Npos XH))

(** val addr_class : addr -> n **)

let addr_class = function
| A4 _ -> N0
| A6 x -> (match from_mapped x with
           | Some _ -> Npos XH
           | None -> Npos (XO XH))
| AUnix -> Npos (XI XH)

(** val check_decision : rule list -> addr -> op -> n -> n -> n list **)

let check_decision rs cl o impl tagbase =
  if N.eqb impl (Npos (XI XH))
  then v_viol (Npos (XO XH))
  else if negb (eqb (N.eqb impl N0) (spec_granted rs cl o))
       then v_viol (Npos XH)
       else let d = decision_code (require rs cl o) in
            if negb (N.eqb impl d)
            then v_diff (d :: [])
            else v_ok
                   (N.add (N.add tagbase d)
                     (match first_idx rs cl N0 with
                      | Some n0 ->
                        (match n0 with
                         | N0 -> N0
                         | Npos _ -> Npos (XI XH))
                      | None -> N0))

(** val spec_http_perm : bool -> n -> op **)

let spec_http_perm get path =
  if get
  then (match path with
        | N0 -> OpHttp
        | Npos p -> (match p with
                     | XH -> OpMetrics
                     | _ -> OpLeases))
  else OpLeases

(** val check_C08 : n list -> n list **)

let check_C08 = function
| [] -> v_bad
| n0 :: r ->
  (match n0 with
   | N0 -> v_bad
   | Npos p ->
     (match p with
      | XI p0 ->
        (match p0 with
         | XI _ -> v_bad
         | XO p1 ->
           (match p1 with
            | XI p2 ->
              (match p2 with
               | XO p3 ->
                 (match p3 with
                  | XH ->
                    (match r with
                     | [] -> v_bad
                     | klass :: l ->
                       (match l with
                        | [] -> v_bad
                        | got :: l0 ->
                          (match l0 with
                           | [] -> v_bad
                           | rcode :: l1 ->
                             (match l1 with
                              | [] ->
                                if (&&)
                                     ((&&) (N.eqb klass N0)
                                       (N.eqb got (Npos XH)))
                                     (negb (N.eqb rcode (Npos (XI (XO XH)))))
                                then v_viol (Npos (XO (XO (XO XH))))
                                else if (&&)
                                          ((&&) (N.eqb klass (Npos XH))
                                            (N.eqb got (Npos XH)))
                                          (N.eqb rcode (Npos (XI (XO XH))))
                                     then v_viol (Npos (XO (XO (XO XH))))
                                     else if N.eqb got N0
                                          then v_diff ((Npos XH) :: [])
                                          else v_ok
                                                 (N.add (Npos (XO (XO (XO (XO
                                                   (XI (XO XH))))))) klass)
                              | _ :: _ -> v_bad))))
                  | _ -> v_bad)
               | _ -> v_bad)
            | XO _ -> v_bad
            | XH ->
              (match r with
               | [] -> v_bad
               | n1 :: r0 ->
                 (match tok_prefixes (N.to_nat n1) r0 with
                  | Some p2 ->
                    let (ps, r2) = p2 in
                    (match tok_addr r2 with
                     | Some p3 ->
                       let (cl, l) = p3 in
                       (match l with
                        | [] -> v_bad
                        | o :: l0 ->
                          (match l0 with
                           | [] -> v_bad
                           | impl :: l1 ->
                             (match l1 with
                              | [] ->
                                if (&&) (forallb wf_prefix ps) (wf_addr cl)
                                then check_decision (default_acls ps) cl
                                       (op_of o) impl (Npos (XO (XI (XO (XO
                                       (XI XH))))))
                                else v_bad
                              | _ :: _ -> v_bad)))
                     | None -> v_bad)
                  | None -> v_bad)))
         | XH ->
           (match tok_prefix r with
            | Some p1 ->
              let (p2, r2) = p1 in
              (match tok_addr r2 with
               | Some p3 ->
                 let (cl, l) = p3 in
                 (match l with
                  | [] -> v_bad
                  | impl :: l0 ->
                    (match l0 with
                     | [] ->
                       if negb ((&&) (wf_prefix p2) (wf_addr cl))
                       then v_bad
                       else if N.eqb impl (Npos (XO XH))
                            then v_viol (Npos (XO XH))
                            else if negb
                                      (eqb (N.eqb impl (Npos XH))
                                        (in_prefix_b p2 cl))
                                 then v_viol (Npos (XO (XO XH)))
                                 else if negb
                                           (eqb (N.eqb impl (Npos XH))
                                             (contains p2 cl))
                                      then v_diff
                                             ((N.b2n (contains p2 cl)) :: [])
                                      else v_ok
                                             (N.add
                                               (N.add (Npos (XO (XI (XI (XI
                                                 XH)))))
                                                 (N.mul (Npos (XO XH))
                                                   (addr_class cl)))
                                               (N.b2n (contains p2 cl)))
                     | _ :: _ -> v_bad))
               | None -> v_bad)
            | None -> v_bad))
      | XO p0 ->
        (match p0 with
         | XI p1 ->
           (match p1 with
            | XH ->
              (match r with
               | [] -> v_bad
               | impl :: l ->
                 (match l with
                  | [] ->
                    if N.eqb impl N0
                    then v_ok (Npos (XO (XO (XI (XI (XI XH))))))
                    else v_viol (Npos (XO (XI XH)))
                  | _ :: _ -> v_bad))
            | _ -> v_bad)
         | XO p1 ->
           (match p1 with
            | XI p2 ->
              (match p2 with
               | XO p3 ->
                 (match p3 with
                  | XH ->
                    (match r with
                     | [] -> v_bad
                     | klass :: l ->
                       (match l with
                        | [] -> v_bad
                        | path :: l0 ->
                          (match l0 with
                           | [] -> v_bad
                           | status :: l1 ->
                             (match l1 with
                              | [] ->
                                if N.eqb status N0
                                then v_diff (N0 :: [])
                                else if (&&) (N.eqb klass N0)
                                          (negb
                                            (N.eqb status (Npos (XI (XI (XO
                                              (XO (XI (XO (XO (XI XH)))))))))))
                                     then v_viol (Npos (XI (XI XH)))
                                     else if (&&) (N.eqb klass (Npos XH))
                                               (N.eqb status (Npos (XI (XI
                                                 (XO (XO (XI (XO (XO (XI
                                                 XH))))))))))
                                          then v_viol (Npos (XI (XI XH)))
                                          else if (&&)
                                                    (N.eqb klass (Npos XH))
                                                    (negb
                                                      (N.eqb status
                                                        (if N.eqb path (Npos
                                                              (XI XH))
                                                         then Npos (XO (XO
                                                                (XI (XO (XI
                                                                (XO (XO (XI
                                                                XH))))))))
                                                         else Npos (XO (XO
                                                                (XO (XI (XO
                                                                (XO (XI
                                                                XH))))))))))
                                               then v_diff
                                                      ((if N.eqb path (Npos
                                                             (XI XH))
                                                        then Npos (XO (XO (XI
                                                               (XO (XI (XO
                                                               (XO (XI
                                                               XH))))))))
                                                        else Npos (XO (XO (XO
                                                               (XI (XO (XO
                                                               (XI XH)))))))) :: [])
                                               else v_ok
                                                      (N.add
                                                        (N.add (Npos (XO (XI
                                                          (XI (XO (XO (XO
                                                          XH)))))))
                                                          (N.mul (Npos (XO
                                                            (XO XH))) klass))
                                                        (N.min path (Npos (XI
                                                          XH))))
                              | _ :: _ -> v_bad))))
                  | _ -> v_bad)
               | _ -> v_bad)
            | XO _ -> v_bad
            | XH ->
              (match tok_rules r with
               | Some p2 ->
                 let (rs, r2) = p2 in
                 (match tok_addr r2 with
                  | Some p3 ->
                    let (cl, l) = p3 in
                    (match l with
                     | [] -> v_bad
                     | impl :: l0 ->
                       (match l0 with
                        | [] ->
                          if negb ((&&) (wf_rules rs) (wf_addr cl))
                          then v_bad
                          else if N.leb (Npos (XO XH)) impl
                               then v_viol (Npos (XO XH))
                               else if negb
                                         (eqb (N.eqb impl (Npos XH))
                                           (negb (spec_granted rs cl OpDns)))
                                    then v_viol (Npos (XI (XO XH)))
                                    else let m =
                                           match dns_gate rs cl with
                                           | DnsRefusedByAcl -> Npos XH
                                           | DnsPassedOn -> N0
                                         in
                                         if negb (N.eqb impl m)
                                         then v_diff (m :: [])
                                         else v_ok
                                                (N.add (Npos (XO (XO (XO (XI
                                                  (XO XH)))))) m)
                        | _ :: _ -> v_bad))
                  | None -> v_bad)
               | None -> v_bad))
         | XH ->
           (match tok_rules r with
            | Some p1 ->
              let (rs, r2) = p1 in
              (match tok_addr r2 with
               | Some p2 ->
                 let (cl, l) = p2 in
                 (match l with
                  | [] -> v_bad
                  | g :: l0 ->
                    (match l0 with
                     | [] -> v_bad
                     | path :: l1 ->
                       (match l1 with
                        | [] -> v_bad
                        | status :: l2 ->
                          (match l2 with
                           | [] ->
                             let get = negb (N.eqb g N0) in
                             if negb ((&&) (wf_rules rs) (wf_addr cl))
                             then v_bad
                             else if N.ltb status (Npos (XO XH))
                                  then v_viol (Npos (XO XH))
                                  else if negb
                                            (eqb
                                              (N.eqb status (Npos (XI (XI (XO
                                                (XO (XI (XO (XO (XI
                                                XH))))))))))
                                              (negb
                                                (spec_granted rs cl
                                                  (spec_http_perm get path))))
                                       then v_viol (Npos (XI XH))
                                       else let m = http_status rs cl get path
                                            in
                                            if negb (N.eqb status m)
                                            then v_diff (m :: [])
                                            else v_ok
                                                   (if N.eqb m (Npos (XI (XI
                                                         (XO (XO (XI (XO (XO
                                                         (XI XH)))))))))
                                                    then N.add (Npos (XO (XO
                                                           (XI (XO XH)))))
                                                           (N.min path (Npos
                                                             (XI XH)))
                                                    else N.add (Npos (XO (XO
                                                           (XO (XI XH)))))
                                                           (N.min path (Npos
                                                             (XI XH))))
                           | _ :: _ -> v_bad))))
               | None -> v_bad)
            | None -> v_bad))
      | XH ->
        (match tok_rules r with
         | Some p0 ->
           let (rs, r2) = p0 in
           (match tok_addr r2 with
            | Some p1 ->
              let (cl, l) = p1 in
              (match l with
               | [] -> v_bad
               | o :: l0 ->
                 (match l0 with
                  | [] -> v_bad
                  | impl :: l1 ->
                    (match l1 with
                     | [] ->
                       if (&&) (wf_rules rs) (wf_addr cl)
                       then check_decision rs cl (op_of o) impl (Npos (XO (XI
                              (XO XH))))
                       else v_bad
                     | _ :: _ -> v_bad)))
            | None -> v_bad)
         | None -> v_bad)))


val negb : bool -> bool

type nat =
| O
| S of nat

val fst : ('a1 * 'a2) -> 'a1

val snd : ('a1 * 'a2) -> 'a2

val length : 'a1 list -> nat

type comparison =
| Eq
| Lt
| Gt

val add : nat -> nat -> nat

val eqb : bool -> bool -> bool

val fold_left : ('a1 -> 'a2 -> 'a1) -> 'a2 list -> 'a1 -> 'a1

val existsb : ('a1 -> bool) -> 'a1 list -> bool

val forallb : ('a1 -> bool) -> 'a1 list -> bool

val firstn : nat -> 'a1 list -> 'a1 list

val skipn : nat -> 'a1 list -> 'a1 list

type positive =
| XI of positive
| XO of positive
| XH

type n =
| N0
| Npos of positive

module Pos :
 sig
  type mask =
  | IsNul
  | IsPos of positive
  | IsNeg
 end

module Coq_Pos :
 sig
  val succ : positive -> positive

  val add : positive -> positive -> positive

  val add_carry : positive -> positive -> positive

  val pred_double : positive -> positive

  val pred_N : positive -> n

  type mask = Pos.mask =
  | IsNul
  | IsPos of positive
  | IsNeg

  val succ_double_mask : mask -> mask

  val double_mask : mask -> mask

  val double_pred_mask : positive -> mask

  val sub_mask : positive -> positive -> mask

  val sub_mask_carry : positive -> positive -> mask

  val mul : positive -> positive -> positive

  val iter : ('a1 -> 'a1) -> 'a1 -> positive -> 'a1

  val pow : positive -> positive -> positive

  val compare_cont : comparison -> positive -> positive -> comparison

  val compare : positive -> positive -> comparison

  val eqb : positive -> positive -> bool

  val coq_Nsucc_double : n -> n

  val coq_Ndouble : n -> n

  val coq_lor : positive -> positive -> positive

  val coq_land : positive -> positive -> n

  val coq_lxor : positive -> positive -> n

  val shiftl : positive -> n -> positive

  val iter_op : ('a1 -> 'a1 -> 'a1) -> positive -> 'a1 -> 'a1

  val to_nat : positive -> nat

  val of_succ_nat : nat -> positive
 end

module N :
 sig
  val pred : n -> n

  val add : n -> n -> n

  val sub : n -> n -> n

  val mul : n -> n -> n

  val compare : n -> n -> comparison

  val eqb : n -> n -> bool

  val leb : n -> n -> bool

  val ltb : n -> n -> bool

  val min : n -> n -> n

  val div2 : n -> n

  val pow : n -> n -> n

  val coq_lor : n -> n -> n

  val coq_land : n -> n -> n

  val coq_lxor : n -> n -> n

  val shiftl : n -> n -> n

  val shiftr : n -> n -> n

  val to_nat : n -> nat

  val of_nat : nat -> n

  val b2n : bool -> n

  val ones : n -> n
 end

val lenN : 'a1 list -> n

val takeN : n -> 'a1 list -> 'a1 list

val dropN : n -> 'a1 list -> 'a1 list

val tok_take : n -> n list -> (n list * n list) option

val tok_bytes : n list -> (n list * n list) option

val v_ok : n -> n list

val v_diff : n list -> n list

val v_viol : n -> n list

val v_bad : n list

type addr =
| A4 of n
| A6 of n
| AUnix

type prefix =
| P4 of n * n
| P6 of n * n

type perm = { p_dns : bool; p_http : bool; p_metrics : bool; p_leases : bool }

type rule = { r_subnet : prefix list option; r_unix : bool option;
              r_perm : perm }

type op =
| OpDns
| OpHttp
| OpLeases
| OpMetrics

type decision =
| Granted
| NotAuthenticated
| NotAuthorised

val wf_addr : addr -> bool

val wf_prefix : prefix -> bool

val wf_rule : rule -> bool

val wf_rules : rule list -> bool

val netmask : n -> n -> n

val contains_w : n -> n -> n -> n -> bool

val mAPPED : n

val to_mapped : n -> n

val from_mapped : n -> n option

val contains : prefix -> addr -> bool

val is_unix : addr -> bool

val rule_check : rule -> addr -> bool

val check_authenticated : rule list -> addr -> perm option

val perm_has : perm -> op -> bool

val require : rule list -> addr -> op -> decision

val no_perm : perm

val add_access : perm -> n -> perm

val perm_of_accesses : n list -> perm

val all_perm : perm

val lOCALHOST4 : prefix

val lOCALHOST6 : prefix

val default_acls : prefix list -> rule list

val http_perm : bool -> n -> op

val http_ok_status : bool -> n -> n

val http_status : rule list -> addr -> bool -> n -> n

type dns_outcome =
| DnsRefusedByAcl
| DnsPassedOn

val dns_gate : rule list -> addr -> dns_outcome

val addr128 : addr -> n option

val prefix128 : prefix -> n * n

val permits : rule -> op -> bool

val in_prefix_b : prefix -> addr -> bool

val rule_matches_b : rule -> addr -> bool

val first_match_b : rule list -> addr -> rule option

val spec_granted : rule list -> addr -> op -> bool

val w128 : n -> n -> n -> n -> n

val tok_prefix : n list -> (prefix * n list) option

val tok_addr : n list -> (addr * n list) option

val tok_prefixes : nat -> n list -> (prefix list * n list) option

val tok_rule : n list -> (rule * n list) option

val tok_rules_n : nat -> n list -> (rule list * n list) option

val tok_rules : n list -> (rule list * n list) option

val op_of : n -> op

val decision_code : decision -> n

val first_idx : rule list -> addr -> n -> n option

val addr_class : addr -> n

val check_decision : rule list -> addr -> op -> n -> n -> n list

val spec_http_perm : bool -> n -> op

val check_C08 : n list -> n list

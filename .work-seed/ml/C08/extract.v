Require Import Erbium.Model.EntryC08.
Require ExtrOcamlBasic.
Extraction "m.ml" check_C08.

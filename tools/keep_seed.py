#!/usr/bin/env python3
"""Copy a confirmed seeded change into /verif/seeded/<ID>-<k>/ and record what was run.
usage: keep_seed.py <seed-dir> <confirm-log-line> <detected:yes|no> <detail>"""
import sys, os, json, shutil
sd, confirm, detected, detail = sys.argv[1:5]
name = os.path.basename(sd.rstrip("/")).replace("seeded-", "")
dst = os.path.join("/verif/seeded", name)
os.makedirs(dst, exist_ok=True)
for f in ("patch.diff", "demo.diff"):
    shutil.copy(os.path.join(sd, f), os.path.join(dst, f))
m = json.load(open(os.path.join(sd, "meta.json")))
m["confirmed_by_integrator"] = confirm
m["check_result"] = {"detected": detected, "detail": detail,
                     "how_run": "git -C /repo apply patch.diff; ./check %s --tier quick; git -C /repo checkout -- ." % m.get("property", name.split("-")[0])}
json.dump(m, open(os.path.join(dst, "meta.json"), "w"), indent=1)
print("kept", dst)

#!/usr/bin/env python3
"""print the steps of a D01 history case line (file with case lines or a replay JSON): d01decode.py FILE [case-index]"""
import sys, json
def lines(path):
    try:
        j = json.load(open(path)); return [c["case"] for c in j["cases"]]
    except Exception:
        return [l for l in open(path).read().splitlines() if l and not l.startswith("#")]
def hx(b): return bytes(b).hex()
def main():
    ls = lines(sys.argv[1]); k = int(sys.argv[2]) if len(sys.argv) > 2 else 0
    t = [int(x) for x in ls[k].split()]
    starts = [i for i, x in enumerate(t) if 1700000000 < x < 1900000000 and i + 5 < len(t) and t[i+5] in (4, 6, 16)]
    print("header:", t[:starts[0]])
    for n, p in enumerate(starts):
        t_s, nss, nsn, nis, nin = t[p:p+5]; p += 5
        fam = t[p]; cl = t[p+1]; port, tcp = t[p+2], t[p+3]; p += 4
        lfam = t[p]; lo = t[p+1]; b1, b2 = t[p+2], t[p+3]; p += 4
        def by(p): n = t[p]; return t[p+1:p+1+n], p+1+n
        def ob(p):
            if t[p] == 0: return None, p+1
            return by(p+1)
        nsid, p = by(p); iss, p = by(p); q, p = by(p)
        nu = t[p]; p += 1; ups = []
        for _ in range(nu):
            srv, tr = t[p], t[p+1]; b, p = by(p+2); ups.append((srv, tr, hx(b)))
        ua, p = ob(p); ta, p = ob(p); rep, p = ob(p)
        sleep = t[p]; sc, p = by(p+1)
        ip = ".".join(str((cl >> s) & 255) for s in (24, 16, 8, 0))
        print("step %d t=%d.%09d client=%s:%d tcp=%d buckets=%d,%d sleep=%d script=%s" % (n, nss, nsn, ip, port, tcp, b1, b2, sleep, sc))
        print("   query   ", hx(q))
        for u in ups: print("   upstream", u)
        print("   udp-ans ", None if ua is None else "%d: %s" % (len(ua), hx(ua)[:120]))
        print("   tcp-ans ", None if ta is None else "%d: %s" % (len(ta), hx(ta)[:120]))
        print("   reply   ", None if rep is None else "%d: %s" % (len(rep), hx(rep)[:160]))
main()

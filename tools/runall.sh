#!/bin/bash
# run every claimed check (quick tier) and print one line each
cd /verif
for id in $(python3 -c "import json;print(' '.join(c['property_id'] for c in json.load(open('MANIFEST.json'))['checks']))"); do
  ./check $id "$@" 2>&1 | grep -E "^(VIOLATION|KNOWN-FINDING|$id tier)" | cut -c1-220
done

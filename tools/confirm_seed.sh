#!/bin/bash
# Confirm a seeded change in a scratch worktree: (1) patch alone: suite passes (99), (2) patch+demo: demo fails,
# (3) demo alone: demo passes.   usage: confirm_seed.sh <seed-dir> <worktree>
sd="$1"; wt="$2"
export CARGO_NET_OFFLINE=true CARGO_TARGET_DIR="$wt/target"
cd "$wt" || exit 1
git checkout -q -- . ; git clean -fdq -e target
demo=$(python3 -c "import json;print(json.load(open('$sd/meta.json'))['demo_cmd'])")
# strip env prefixes from the recorded command
demo=$(echo "$demo" | sed -E 's/^cd <worktree> && //; s/  +[(#].*$//; s/^([A-Z_]+=[^ ]+ )+//')
res=""
git apply "$sd/patch.diff" || { echo "RESULT $sd patch-does-not-apply"; exit 1; }
out=$(timeout 1500 cargo test -j6 --workspace --no-fail-fast --offline 2>&1 | grep -E "^test result" | awk '{p+=$4; f+=$6} END{print p"/"f}')
res="suite_with_patch=$out"
git apply "$sd/demo.diff" || { echo "RESULT $sd demo-does-not-apply-with-patch"; git checkout -q -- .; git clean -fdq -e target; exit 1; }
if timeout 1500 bash -c "$demo" >/dev/null 2>&1; then res="$res demo_with_patch=PASS(!)"; else res="$res demo_with_patch=fails"; fi
git checkout -q -- . ; git clean -fdq -e target
git apply "$sd/demo.diff"
if timeout 1500 bash -c "$demo" >/dev/null 2>&1; then res="$res demo_without_patch=passes"; else res="$res demo_without_patch=FAILS(!)"; fi
git checkout -q -- . ; git clean -fdq -e target
echo "RESULT $sd $res"

#!/usr/bin/env python3
"""Regenerate the machine-derived tables of DESIGN.md (between <!-- BEGIN x --> / <!-- END x --> markers):
status (per property: theorems, cases, findings), seeded (which check catches which seeded change), hooks/fixes."""
import json, os, re, subprocess, glob
V = os.path.join(os.path.dirname(os.path.abspath(__file__)), "..")

def strip_comments(src):
    out, depth, i = [], 0, 0
    while i < len(src):
        if src.startswith("(*", i): depth += 1; i += 2
        elif src.startswith("*)", i) and depth > 0: depth -= 1; i += 2
        else:
            if depth == 0: out.append(src[i])
            i += 1
    return "".join(out)

def status_table():
    rows = ["| prop | theorems (Props/) | partial / refuted | quick cases (non-trivial) | rig | known findings | fixed findings |", "|---|---|---|---|---|---|---|"]
    kn = {}; fx = {}
    for p in [os.path.join(V, "known_findings.txt")] + sorted(glob.glob(os.path.join(V, "known_findings.d", "*.txt"))):
        for l in open(p):
            m = re.match(r"(known|fixed):\s+property=(\S+)", l)
            if m: (kn if m.group(1) == "known" else fx).setdefault(m.group(2), []).append(l)
    for l in open(os.path.join(V, "properties.jsonl")):
        pid = json.loads(l)["id"]
        pj = os.path.join(V, "props", pid + ".json")
        if not os.path.exists(pj): rows.append("| %s | not built | | | | | |" % pid); continue
        pr = json.load(open(pj))
        thms = []
        for pf in [pid] + pr.get("extra_props", []):
            thms += re.findall(r"\b(?:Theorem|Corollary)\s+([A-Za-z0-9_']+)", strip_comments(open(os.path.join(V, "coq", "Props", pf + ".v")).read()))
        part = [t for t in thms if t.endswith("_partial") or t.endswith("_refuted")]
        ev = {}
        try: ev = json.load(open(os.path.join(V, "evidence", pid + ".json")))
        except Exception: pass
        cov = ev.get("coverage", {})
        rows.append("| %s | %d | %s | %s (%s) | %s | %d | %d |" % (pid, len(thms), ", ".join("`%s`" % t for t in part) or "-", cov.get("evaluations", "?"), cov.get("distinct_nontrivial", "?"),
                    pr.get("rig", {}).get("scenarios", "-"), len(kn.get(pid, [])), len(fx.get(pid, []))))
    return "\n".join(rows)

def seeded_table():
    rows = ["| seeded change | what was changed | needs to manifest | detected by `./check <id>` (quick) |", "|---|---|---|---|"]
    for d in sorted(glob.glob(os.path.join(V, "seeded", "*"))):
        try: m = json.load(open(os.path.join(d, "meta.json")))
        except Exception: continue
        cr = m.get("check_result", {})
        f = lambda s, n: re.sub(r"\s+", " ", str(s)).replace("|", "/")[:n]
        rows.append("| %s | %s | %s | **%s** - %s |" % (os.path.basename(d), f(m.get("summary", ""), 220), f(m.get("needs_to_manifest", ""), 160), cr.get("detected", "?"), f((("missed at first; " + cr["strengthened"] + " -- ") if cr.get("strengthened") else "") + cr.get("detail", ""), 320)))
    return "\n".join(rows)

def repo_commits():
    out = subprocess.run(["git", "-C", "/repo", "log", "--reverse", "--format=%h %s", "004459e..HEAD"], capture_output=True, text=True).stdout.splitlines()
    hooks = [l for l in out if "verif hook" in l]
    fixes = [l for l in out if l.split(" ", 1)[1].startswith("fix:")]
    s = "Hook commits (guard `cfg(erbium_verif)`, add-only):\n\n" + "\n".join("* `%s` %s" % tuple(l.split(" ", 1)) for l in hooks)
    s += "\n\n`fix:` commits (%d):\n\n" % len(fixes) + "\n".join("* `%s` %s" % tuple(l.split(" ", 1)) for l in fixes)
    return s

def main():
    p = os.path.join(V, "DESIGN.md")
    s = open(p).read()
    for name, fn in (("status", status_table), ("seeded", seeded_table), ("commits", repo_commits)):
        b, e = "<!-- BEGIN %s -->" % name, "<!-- END %s -->" % name
        if b in s and e in s:
            s = s[:s.index(b) + len(b)] + "\n" + fn() + "\n" + s[s.index(e):]
    open(p, "w").write(s)

if __name__ == "__main__":
    main()

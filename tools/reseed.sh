#!/bin/bash
# Re-run a property's quick check against a kept seeded change after the check was strengthened, in the scratch
# worktree /tmp/seed-<ID> (moved to /repo's HEAD first), and record the result in seeded/<ID>-<k>/meta.json.
# usage: reseed.sh <ID>-<k> "<what was strengthened>"     (env SEED_WORK: work directory)
name="$1"; what="$2"
id=${name%-*}
wt=/tmp/seed-$id
W=${SEED_WORK:-/verif/.work-seed}
export VERIF_WORK=$W VERIF_EVIDENCE=$W/evidence VERIF_REPLAYS=$W/replays
sd=/verif/seeded/$name
( cd $wt && git checkout -q -- . && git clean -fdq -e target && git checkout -q --detach $(git -C /repo rev-parse HEAD) && git apply $sd/patch.diff ) || { echo "RESEED $name patch-does-not-apply"; exit 1; }
out=$(cd /verif && VERIF_REPO=$wt ./check $id 2>&1 | grep -E "^(VIOLATION|$id tier)" | tr '\n' ' ')
( cd $wt && git checkout -q -- . && git clean -fdq -e target )
if echo "$out" | grep -q "VIOLATION"; then det="yes (after strengthening)"; else det="no"; fi
echo "RESEED $name detected=$det :: $out"
python3 - "$sd/meta.json" "$det" "$what" "$out" <<'PY'
import sys, json
p, det, what, out = sys.argv[1:5]
m = json.load(open(p))
old = m.get("check_result", {})
first = old.get("first_result") or ("%s: %s" % (old.get("detected"), old.get("detail", "")))
m["check_result"] = {"detected": det, "first_result": first, "strengthened": what, "detail": out,
                     "how_run": old.get("how_run", "")}
json.dump(m, open(p, "w"), indent=1)
PY

#!/bin/sh
# Create an isolated builder workspace: a clone of /verif and a worktree of /repo.
set -e
name="$1"
base=/root/build/$name
mkdir -p "$base"
git clone -q /verif "$base/verif"
git -C "$base/verif" checkout -q -b "$name"
git -C /repo worktree add -q -b "build-$name" "$base/repo" HEAD
echo "$base"

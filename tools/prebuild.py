#!/usr/bin/env python3
"""Build the harness and every property's extracted model driver (used by setup.sh)."""
import os, sys, json, importlib.util, importlib.machinery
here = os.path.dirname(os.path.abspath(__file__))
loader = importlib.machinery.SourceFileLoader("check", os.path.join(here, "..", "check"))
spec = importlib.util.spec_from_loader("check", loader)
chk = importlib.util.module_from_spec(spec)
loader.exec_module(chk)
bad = 0
exe, err = chk.build_harness("REAL")
print("REAL binary", "ok" if exe else err)
for fn in sorted(os.listdir(os.path.join(chk.VERIF, "props"))):
    if fn.endswith(".json"):
        pid = fn[:-5]
        exe, err = chk.build_harness(pid)
        print(pid, "harness", "ok" if exe else err)
        bad += 0 if exe else 1
        d, err = chk.build_driver(pid, chk.load_prop(pid))
        print(pid, "driver", "ok" if d else err)
        bad += 0 if d else 1
sys.exit(1 if bad else 0)

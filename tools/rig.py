#!/usr/bin/env python3
"""End-to-end rig: runs the REAL erbium binary in a private network + mount namespace and
observes client-visible behaviour of the glue that function-level hooks cannot reach
(DESIGN.md section 4.3).  Differential testing of glue -- no theorem depends on it.

usage: rig.py <erbium-binary> <scenario>[,<scenario>...] [--seed N]
prints one JSON object: {"scenario": {...observations...}, ...}

Scenarios:
  dhcp   DISCOVERs with the broadcast flag set / clear / other bits, hostile datagrams in between;
         observes destination IP + MAC of each OFFER on the wire, and that valid requests keep being answered
  http   GET /, /metrics, /api/v1/leases.json, /nonexistent from clients whose first matching ACL rule
         grants / does not grant http access; observes status codes
  dns    queries to an IPv4-only, an IPv6 and a second-address listener; observes the source address of
         each reply, REFUSED for clients without dns-recursion, forge-nxdomain, forwarding to a scripted upstream
  ra     router solicitations (to ff02::2 and to the router's link-local address) from the client namespace on three
         veth pairs whose router ends are configured explicitly / by top-level defaults / with nulls; every router
         advertisement captured with its IPv6 source, destination and hop limit, next to the abstract configuration
         and the environment (MAC, link MTU, interface addresses, default route) the advertisement must reflect
  dhcpflow  DISCOVER -> OFFER -> REQUEST(selecting) -> ACK -> renewal (unicast, ciaddr) -> REQUEST naming a foreign
         server -> INFORM -> DISCOVER with an 8-octet client-id -> RELEASE; every reply frame and the lease listing
         (/api/v1/leases.json) after every step
"""
import sys, os, json, subprocess, time, socket, struct, random, select, signal, tempfile, ipaddress


def sh(cmd, check=True):
    return subprocess.run(cmd, shell=True, check=check, stdout=subprocess.PIPE, stderr=subprocess.STDOUT, text=True).stdout


# ----------------------------------------------------------------------------- outer: enter namespaces
def outer(argv):
    os.execvp("unshare", ["unshare", "--net", "--mount", "--fork", "--kill-child", sys.executable, os.path.abspath(__file__), "--inner"] + argv)


CONFIG = """
addresses: [192.0.2.1/24]
dhcp-policies:
  - match-subnet: 192.0.2.0/24
    apply-range: {start: 192.0.2.10, end: 192.0.2.40}
    apply-domain-name: "a-rather-long-domain-name-for-the-clients-of-this-network.lan.example.org"
    apply-root-path: "nfs://fileserver.lan.example.org/exports/diskless/clients/default-root-filesystem"
    apply-wpad-url: "http://wpad.lan.example.org/proxy/autoconfiguration/wpad.dat?network=192.0.2.0"
api-listeners: ["127.0.0.1:9968", "[::1]:9968"]
dns-listeners: ["127.0.0.1:5353", "[::1]:5353", "127.0.0.3:5353"]
dns-routes:
  - domain-suffixes: [""]
    type: forward
    dns-servers: [127.0.0.53]
  - domain-suffixes: ["invalid"]
    type: forge-nxdomain
acls:
  - match-subnets: [127.0.0.2/32]
    apply-access: ["dns-recursion"]
  - match-subnets: [127.0.0.4/32]
    apply-access: []
  - match-subnets: [127.0.0.5/32]
    apply-access: ["http"]
  - match-subnets: [127.0.0.6/32]
    apply-access: ["http", "http-metrics"]
  - match-subnets: [127.0.0.0/8, "::1/128"]
    apply-access: ["dns-recursion", "http-ro"]
"""


def ip_batch(lines, ns_pid=None, pre="", check=True):
    """all the given `ip` commands in ONE process (process creation is what costs on a busy machine)"""
    cmd = pre + "ip -batch -"
    if ns_pid:
        cmd = "nsenter -t %d -n sh -c '%s'" % (ns_pid, cmd)
    p = subprocess.run(cmd, shell=True, input="\n".join(lines) + "\n", stdout=subprocess.PIPE, stderr=subprocess.STDOUT, text=True)
    if check and p.returncode != 0:
        raise RuntimeError("ip -batch failed: %s" % p.stdout[-400:])
    return p


def sysctl_here(path, val):
    try:
        with open("/proc/sys/net/" + path, "w") as f:
            f.write("%s\n" % val)
    except OSError:
        pass


def setup_net(ra=None):
    sh("mount -t tmpfs tmpfs /var/lib && mkdir -p /var/lib/erbium")
    if ra:
        # a router: forwarding on (the kernel then joins ff02::2 on every interface); no duplicate address
        # detection, so that link-local addresses are usable at once
        for k in ("all/accept_dad", "default/accept_dad", "default/dad_transmits"):
            sysctl_here("ipv6/conf/" + k, 0)
        sysctl_here("ipv6/conf/all/forwarding", 1)
        sysctl_here("ipv6/conf/default/forwarding", 1)
    # second namespace for the DHCP client end of the veth pair
    holder = subprocess.Popen(["unshare", "--net", "sleep", "600"])
    ip_batch(["link set lo up"] + ["addr add %s/8 dev lo" % a for a in ("127.0.0.2", "127.0.0.3", "127.0.0.4", "127.0.0.53")]
             + ["link add veth0 type veth peer name veth1", "addr add 192.0.2.1/24 dev veth0"])
    # wait until the holder really lives in its own network namespace (the machine may be busy)
    mine = os.readlink("/proc/self/ns/net")
    for _ in range(300):
        try:
            if os.readlink("/proc/%d/ns/net" % holder.pid) != mine:
                break
        except OSError:
            pass
        time.sleep(0.05)
    pre = ""
    if ra:
        # the client end: no DAD, and the kernel itself neither solicits nor autoconfigures
        pre = "".join("echo 0 > /proc/sys/net/ipv6/conf/%s; " % k for k in
                      ("all/accept_dad", "default/accept_dad", "default/dad_transmits", "default/accept_ra", "all/accept_ra",
                       "default/router_solicitations"))
    extra = [(i["name"], i["peer"], i["link_mtu"]) for i in ra["ifaces"] if i["name"] != "veth0"] if ra else []
    here = []
    for dev, peer, mtu in extra:
        here.append("link add %s type veth peer name %s" % (dev, peer))
        if mtu:
            here += ["link set %s mtu %d" % (dev, mtu), "link set %s mtu %d" % (peer, mtu)]
    if pre:
        subprocess.run("nsenter -t %d -n sh -c '%s'" % (holder.pid, pre), shell=True, stdout=subprocess.DEVNULL, stderr=subprocess.DEVNULL)
    here += ["link set %s netns %d" % (peer, holder.pid) for peer in ["veth1"] + [e[1] for e in extra]]
    here += ["link set %s up" % dev for dev in ["veth0"] + [e[0] for e in extra]]
    if ra:
        for i in ra["ifaces"]:
            here += ["addr add %s dev %s nodad" % (a, i["name"]) for a in i["addrs"]]
    ip_batch(here)
    there = ["link set lo up"] + ["link set %s up" % peer for peer in ["veth1"] + [e[1] for e in extra]]
    for _ in range(50):
        if ip_batch(there, holder.pid, check=False).returncode == 0:
            break
        time.sleep(0.1)
    mark("base network ready")
    if ra:
        setup_ra_net(holder, ra)
    return holder


def start_erbium(binary, logpath, config=None):
    cfg = "/var/lib/erbium/erbium.conf"
    open(cfg, "w").write(config or CONFIG)
    env = dict(os.environ, RUST_LOG="info", RUST_BACKTRACE="0")
    log = open(logpath, "w")
    p = subprocess.Popen([binary, cfg], stdout=log, stderr=subprocess.STDOUT, env=env)
    # wait for the API listener
    for _ in range(100):
        try:
            s = socket.create_connection(("127.0.0.1", 9968), timeout=0.2)
            s.close()
            break
        except OSError:
            if p.poll() is not None:
                break
            time.sleep(0.1)
    time.sleep(0.3)
    return p


# ----------------------------------------------------------------------------- DHCP client (runs in the 2nd netns)
def dhcp_packet(xid, mac, flags, msgtype=1, extra=b"", hlen=6):
    chaddr = (mac + b"\0" * 16)[:16]
    p = struct.pack("!BBBBIHH", 1, 1, hlen, 0, xid, 0, flags) + b"\0" * 16 + chaddr + b"\0" * 192 + bytes([99, 130, 83, 99])
    p += bytes([53, 1, msgtype]) + extra + b"\xff"
    return p


DHCP_CLIENT = r'''
import sys, socket, struct, json, select, time
script = json.loads(sys.stdin.read())
tx = socket.socket(socket.AF_INET, socket.SOCK_DGRAM)
tx.setsockopt(socket.SOL_SOCKET, socket.SO_BROADCAST, 1)
tx.setsockopt(socket.SOL_SOCKET, socket.SO_REUSEADDR, 1)
tx.setsockopt(socket.SOL_SOCKET, 25, b"veth1\0")     # SO_BINDTODEVICE
tx.bind(("0.0.0.0", 68))
rx = socket.socket(socket.AF_PACKET, socket.SOCK_RAW, socket.htons(0x0800))
rx.bind(("veth1", 0))
out = []
for step in script:
    pkt = bytes.fromhex(step["hex"])
    # drain
    while select.select([rx], [], [], 0)[0]:
        rx.recv(65535)
    tx.sendto(pkt, ("255.255.255.255", 67))
    got = None
    deadline = time.time() + step.get("wait", 0.6)
    while time.time() < deadline:
        r, _, _ = select.select([rx], [], [], max(0, deadline - time.time()))
        if not r:
            break
        f = rx.recv(65535)
        if len(f) < 42 or f[12:14] != b"\x08\x00" or f[23] != 17:
            continue
        sport, dport = struct.unpack("!HH", f[34:38])
        if sport != 67:
            continue
        payload = f[42:]
        if len(payload) < 240:
            continue
        xid = struct.unpack("!I", payload[4:8])[0]
        if xid != step["xid"]:
            continue
        got = {"dst_mac": f[0:6].hex(), "dst_ip": socket.inet_ntoa(f[30:34]), "src_ip": socket.inet_ntoa(f[26:30]),
               "dport": dport, "yiaddr": socket.inet_ntoa(payload[16:20]), "flags": struct.unpack("!H", payload[10:12])[0],
               "chaddr": payload[28:34].hex(), "len": len(f), "frame": f.hex()}
        break
    out.append(got)
print(json.dumps(out))
'''


def scenario_dhcp(holder, rnd):
    steps = []
    meta = []
    xid = 0x1000
    hostile = [
        b"",                                   # empty datagram
        b"\x01" * 10,                          # truncated header
        dhcp_packet(1, b"\x02\0\0\0\0\x99", 0)[:-1],   # no end marker
        dhcp_packet(2, b"\x02\0\0\0\0\x98", 0, extra=bytes([121, 5, 200, 1, 2, 3, 4])),  # option 121 with prefix length 200
        dhcp_packet(3, b"\x02\0\0\0", 0, hlen=4),      # hlen 4
        dhcp_packet(4, b"\x02\0\0\0\0\x97", 0, extra=bytes([51, 9]) + b"\xff" * 9),      # over-long integer option
        dhcp_packet(5, b"\x02\0\0\0\0\x96", 0, extra=bytes([119, 3, 63, 1, 2])),          # bad domain-search label
        dhcp_packet(6, b"\x02\0\0\0\0\x95", 0)[:236] + b"\0\0\0\0",                        # wrong magic
    ]
    flags_list = [0x8000, 0x0000, 0x0080, 0x7fff, 0xffff, 0x0001]
    rnd.shuffle(flags_list)
    for i, fl in enumerate(flags_list):
        # hostile datagram first, then a valid DISCOVER that must be answered
        h = hostile[(i + rnd.randrange(len(hostile))) % len(hostile)]
        steps.append({"hex": h.hex(), "xid": 0xdead0000 + i, "wait": 0.15})
        meta.append({"kind": "hostile"})
        xid += 1
        mac = bytes([2, 0, 0, 0, 1, i])
        # every other DISCOVER asks (parameter request list) for the long options of the policy, so that
        # replies both below and well above 300 octets are seen on the wire
        prl = bytes([55, 9, 1, 3, 6, 15, 17, 28, 51, 54, 252]) if i % 2 == 0 else b""
        steps.append({"hex": dhcp_packet(xid, mac, fl, extra=prl).hex(), "xid": xid, "wait": 1.0})
        meta.append({"kind": "discover", "flags": fl, "mac": mac.hex(), "prl": 1 if prl else 0})
    p = subprocess.run(["nsenter", "-t", str(holder.pid), "-n", sys.executable, "-c", DHCP_CLIENT],
                       input=json.dumps(steps), stdout=subprocess.PIPE, stderr=subprocess.PIPE, text=True, timeout=60)
    if p.returncode != 0:
        return {"error": p.stderr[-800:]}
    res = json.loads(p.stdout)
    obs = []
    for m, r in zip(meta, res):
        if m["kind"] == "discover":
            obs.append({"flags": m["flags"], "mac": m["mac"], "prl": m.get("prl", 0), "reply": r})
    return {"offers": obs}



# ----------------------------------------------------------------------------- router advertisements
# The configuration is held in the abstract form the model entry point reads (tools/rigcases.py turns it into
# the token grammar of harness/src/bin/c17.rs); the YAML given to erbium is rendered from it.
# tri-state values: ["absent"] | ["null"] | ["val", x]; durations are whole seconds.
def ra_plan(rnd):
    top = {"dns_servers": ["::", "2001:db8:0:53::53", "192.0.2.53"],          # "::" is $self6
           "dns_search": ["lan.example.org", "example.net"],
           "captive": "https://portal.example.org/top"}
    plen64 = rnd.choice([32, 40, 48, 56, 64, 96])
    explicit = {
        "hop": rnd.choice([0, 64, 255]), "m": 0, "o": 1,
        "lifetime": ["val", rnd.choice([65536, 70000, 86400, 4294967296])],   # beyond the 16-bit field: advertised as 65535
        "reachable": rnd.choice([0, 30, 3600]), "retrans": rnd.choice([0, 2, 7]),
        "mtu": ["val", rnd.choice([1280, 1480, 1500, 9000])],
        "prefixes": [
            {"addr": "2001:db8:1::", "len": 64, "onlink": 1, "auto": 1, "valid": 2592000, "preferred": 604800},
            {"addr": "2001:db8:2:3:4:5:6:7", "len": rnd.choice([48, 56, 61]), "onlink": 0, "auto": 1,      # written with host bits
             "valid": 7200, "preferred": 3600},
            {"addr": "fd00:1::", "len": 64, "onlink": 1, "auto": 0, "valid": rnd.choice([172800, 4294967295, 4294967296]), "preferred": 3600},
        ],
        "rdnss_lt": ["val", rnd.choice([1200, 0, 4294967295])], "rdnss": ["val", ["::", "2001:db8:1::53"]],
        "dnssl_lt": ["val", 900], "dnssl": ["val", ["rig.example.com", "a.b.example"]],
        "cp": ["val", "https://veth0.example.org/portal?" + "x" * rnd.randrange(0, 9)],
        "pref64": {"lifetime": rnd.choice([600, 601, 65528, 65529]),
                   "prefix": "64:ff9b:1:2:3:4::" if plen64 != 96 else "64:ff9b::", "len": plen64},
    }
    defaults = {                                   # everything from the top level / the interface / the routing table
        "hop": 0, "m": 0, "o": 0, "lifetime": ["absent"], "reachable": 0, "retrans": 0, "mtu": ["absent"],
        "prefixes": [{"addr": "fd00:2::", "len": 64, "onlink": 1, "auto": 1, "valid": 2592000, "preferred": 604800}],
        "rdnss_lt": ["absent"], "rdnss": ["absent"], "dnssl_lt": ["absent"], "dnssl": ["absent"], "cp": ["absent"], "pref64": None,
    }
    nulls = {                                      # null suppresses
        "hop": 255, "m": 1, "o": 0, "lifetime": ["null"], "reachable": 0, "retrans": 0, "mtu": ["null"],
        "prefixes": [{"addr": "2001:db8:4::", "len": 48, "onlink": 0, "auto": 0, "valid": 0, "preferred": 0}],
        "rdnss_lt": ["absent"], "rdnss": ["null"], "dnssl_lt": ["absent"], "dnssl": ["null"], "cp": ["null"], "pref64": None,
    }
    return {"top": top, "style": rnd.randrange(1 << 16), "default_route_dev": "veth0", "ifaces": [
        {"name": "veth0", "peer": "veth1", "addrs": ["2001:db8:1::1/64", "fd00:1::1/64"], "link_mtu": None, "cfg": explicit},
        {"name": "veth2", "peer": "veth3", "addrs": ["fd00:2::1/64", "2001:db8:2::1/64"], "link_mtu": 1400, "cfg": defaults},
        {"name": "veth4", "peer": "veth5", "addrs": [], "link_mtu": None, "cfg": nulls},
    ]}


def ydur(secs, style):
    k = style % 4
    if k == 1:
        return "%ds" % secs
    if k == 2 and secs > 0 and secs % 86400 == 0:
        return "%dd" % (secs // 86400)
    if k == 2 and secs > 0 and secs % 3600 == 0:
        return "%dh" % (secs // 3600)
    if k == 3 and secs >= 3600:
        return "%dh %dm %ds" % (secs // 3600, secs % 3600 // 60, secs % 60)
    return "%d" % secs


def yaddr6(a):
    return "$self6" if a == "::" else '"%s"' % a


def ra_config_yaml(plan):
    st = plan["style"]
    top = plan["top"]
    y = "dns-servers: [%s]\n" % ", ".join(yaddr6(a) if ":" in a else '"%s"' % a for a in top["dns_servers"])
    y += "dns-search: [%s]\n" % ", ".join('"%s"' % d for d in top["dns_search"])
    y += 'captive-portal: "%s"\n' % top["captive"]
    y += "router-advertisements:\n"
    for k, itf in enumerate(plan["ifaces"]):
        c = itf["cfg"]
        ind = "    "
        y += "  %s:\n" % itf["name"]
        y += "%smanaged: %s\n" % (ind, "true" if c["m"] else "false")
        y += "%sother: %s\n" % (ind, "true" if c["o"] else "false")
        if c["hop"]:
            y += "%shop-limit: %d\n" % (ind, c["hop"])
        for key, name in (("lifetime", "lifetime"),):
            if c[key][0] == "null":
                y += "%s%s: null\n" % (ind, name)
            elif c[key][0] == "val":
                y += "%s%s: %s\n" % (ind, name, ydur(c[key][1], st >> 1))
        if c["reachable"]:
            y += "%sreachable: %s\n" % (ind, ydur(c["reachable"], st >> 3))
        if c["retrans"]:
            y += "%sretransmit: %s\n" % (ind, ydur(c["retrans"], st >> 5))
        if c["mtu"][0] == "null":
            y += "%smtu: null\n" % ind
        elif c["mtu"][0] == "val":
            y += "%smtu: %d\n" % (ind, c["mtu"][1])
        y += "%sprefixes:\n" % ind
        for j, p in enumerate(c["prefixes"]):
            y += '%s - prefix: "%s/%d"\n' % (ind, p["addr"], p["len"])
            dflt = p["onlink"] and p["auto"] and p["valid"] == 2592000 and p["preferred"] == 604800
            if not dflt:
                y += "%s   on-link: %s\n" % (ind, "true" if p["onlink"] else "false")
                y += "%s   autonomous: %s\n" % (ind, "true" if p["auto"] else "false")
                y += "%s   valid: %s\n" % (ind, ydur(p["valid"], st >> (7 + j)))
                y += "%s   preferred: %s\n" % (ind, ydur(p["preferred"], st >> (8 + j)))
        for key, ltkey, name, sub in (("rdnss", "rdnss_lt", "dns-servers", "addresses"), ("dnssl", "dnssl_lt", "dns-search", "domains")):
            if c[key][0] == "absent" and c[ltkey][0] == "absent":
                continue
            y += "%s%s:\n" % (ind, name)
            if c[key][0] == "null":
                y += "%s  %s: null\n" % (ind, sub)
            elif c[key][0] == "val":
                y += "%s  %s: [%s]\n" % (ind, sub, ", ".join(yaddr6(a) if key == "rdnss" else '"%s"' % a for a in c[key][1]))
            if c[ltkey][0] == "null":
                y += "%s  lifetime: null\n" % ind
            elif c[ltkey][0] == "val":
                y += "%s  lifetime: %s\n" % (ind, ydur(c[ltkey][1], st >> 11))
        if c["cp"][0] == "null":
            y += "%scaptive-portal: null\n" % ind
        elif c["cp"][0] == "val":
            y += '%scaptive-portal: "%s"\n' % (ind, c["cp"][1])
        if c["pref64"]:
            y += '%spref64:\n%s  prefix: "%s/%d"\n%s  lifetime: %s\n' % (ind, ind, c["pref64"]["prefix"], c["pref64"]["len"], ind,
                                                                     ydur(c["pref64"]["lifetime"], st >> 13))
    return y


def addr_table(ns_pid=None):
    """one `ip -j addr` call: {dev: {"mac":..., "mtu":..., "addrs": [(addr, tentative)]}}"""
    cmd = "ip -j addr show"
    if ns_pid:
        cmd = "nsenter -t %d -n %s" % (ns_pid, cmd)
    try:
        j = json.loads(subprocess.run(cmd, shell=True, stdout=subprocess.PIPE, stderr=subprocess.DEVNULL, text=True).stdout or "[]")
    except ValueError:
        return {}
    out = {}
    for d in j:
        out[d.get("ifname")] = {"mac": (d.get("address") or "").replace(":", ""), "mtu": d.get("mtu"),
                                "addrs": [(a["local"], bool(a.get("tentative"))) for a in d.get("addr_info", []) if a.get("family") == "inet6"]}
    return out


def linklocals(tab, dev):
    return [a for a, tent in tab.get(dev, {}).get("addrs", []) if a.lower().startswith("fe80") and not tent]


def setup_ra_net(holder, plan):
    if plan.get("default_route_dev"):
        ip_batch(["route add default via fe80::fffe dev %s" % plan["default_route_dev"]])
    for ns_pid, key in ((None, "name"), (holder.pid, "peer")):
        for _ in range(100):
            tab = addr_table(ns_pid)
            if all(linklocals(tab, i[key]) for i in plan["ifaces"]):
                break
            time.sleep(0.1)
        for i in plan["ifaces"]:
            if key == "name":
                i["ll"] = linklocals(tab, i["name"])
                i["mac"] = tab.get(i["name"], {}).get("mac")
                i["mtu_seen"] = tab.get(i["name"], {}).get("mtu")
                i["all_addrs"] = [a for a, _ in tab.get(i["name"], {}).get("addrs", [])]
            else:
                i["peer_ll"] = linklocals(tab, i["peer"])
                i["peer_mac"] = tab.get(i["peer"], {}).get("mac")
    mark("ra network ready")


RS_CLIENT = r"""
import sys, socket, struct, json, select, time
steps = json.loads(sys.stdin.read())
out = []
for st in steps:
    dev = st["dev"]
    idx = socket.if_nametoindex(dev)
    rx = socket.socket(socket.AF_PACKET, socket.SOCK_RAW, socket.htons(0x86dd))
    rx.bind((dev, 0))
    tx = socket.socket(socket.AF_INET6, socket.SOCK_RAW, socket.IPPROTO_ICMPV6)
    tx.setsockopt(socket.SOL_SOCKET, 25, dev.encode() + b"\0")
    tx.setsockopt(socket.IPPROTO_IPV6, socket.IPV6_MULTICAST_HOPS, 255)
    tx.setsockopt(socket.IPPROTO_IPV6, socket.IPV6_UNICAST_HOPS, 255)
    tx.setsockopt(socket.IPPROTO_IPV6, socket.IPV6_MULTICAST_IF, idx)
    rs = bytes([133, 0, 0, 0, 0, 0, 0, 0])
    if st.get("sll"):
        rs += bytes([1, 1]) + bytes.fromhex(st["sll"])
    got, attempts = [], 0
    while attempts < st.get("attempts", 2) and not got:
        attempts += 1
        while select.select([rx], [], [], 0)[0]:
            rx.recv(65535)
        try:
            tx.sendto(rs, (st["dst"], 0, 0, idx))
        except OSError as e:
            got.append({"send_error": str(e)})
            break
        deadline = time.time() + st.get("wait", 6.0)
        while time.time() < deadline:
            r, _, _ = select.select([rx], [], [], max(0, deadline - time.time()))
            if not r:
                break
            f = rx.recv(65535)
            if len(f) < 14 + 40 + 8 or f[12:14] != b"\x86\xdd" or f[14 + 6] != 58 or f[54] != 134:
                continue
            plen = struct.unpack("!H", f[18:20])[0]
            got.append({"src_mac": f[6:12].hex(), "dst_mac": f[0:6].hex(), "src": f[22:38].hex(), "dst": f[38:54].hex(),
                        "hlim": f[21], "icmp": f[54:54 + plen].hex(), "frame_len": len(f), "plen": plen})
            deadline = min(deadline, time.time() + st.get("linger", 0.4))     # a little longer, for duplicates
    out.append({"dev": dev, "dst": st["dst"], "attempts": attempts, "ras": got})
    rx.close(); tx.close()
print(json.dumps(out))
"""


def scenario_ra(holder, plan, rnd):
    time.sleep(1.0)                                  # the service learns interfaces and addresses over netlink
    steps = []
    for itf in plan["ifaces"]:
        peer_mac = itf["peer_mac"]
        kinds = [("ff02::2", peer_mac), ("ff02::2", None)]
        if itf["ll"]:
            kinds.append((itf["ll"][0], peer_mac))
        rnd.shuffle(kinds)
        for dst, sll in kinds:
            steps.append({"dev": itf["peer"], "dst": dst, "sll": sll, "wait": 6.0, "attempts": 2})
    p = subprocess.run(["nsenter", "-t", str(holder.pid), "-n", sys.executable, "-c", RS_CLIENT],
                       input=json.dumps(steps), stdout=subprocess.PIPE, stderr=subprocess.PIPE, text=True, timeout=150)
    if p.returncode != 0:
        return {"error": p.stderr[-800:]}
    return {"plan": plan, "solicitations": json.loads(p.stdout)}



# ----------------------------------------------------------------------------- DHCP: whole exchanges
def dhcp_msg(xid, mac, flags, msgtype, opts=b"", hlen=6, ciaddr="0.0.0.0", htype=1):
    chaddr = (mac + b"\0" * 16)[:16]
    p = struct.pack("!BBBBIHH", 1, htype, hlen, 0, xid, 0, flags) + socket.inet_aton(ciaddr) + b"\0" * 12
    p += chaddr + b"\0" * 192 + bytes([99, 130, 83, 99]) + bytes([53, 1, msgtype]) + opts + b"\xff"
    return p


def opt(code, data):
    return bytes([code, len(data)]) + data


FLOW_CLIENT = r"""
import sys, socket, struct, json, select, time
tx = socket.socket(socket.AF_INET, socket.SOCK_DGRAM)
tx.setsockopt(socket.SOL_SOCKET, socket.SO_BROADCAST, 1)
tx.setsockopt(socket.SOL_SOCKET, socket.SO_REUSEADDR, 1)
tx.setsockopt(socket.SOL_SOCKET, 25, b"veth1\0")     # SO_BINDTODEVICE
tx.bind(("0.0.0.0", 68))
rx = socket.socket(socket.AF_PACKET, socket.SOCK_RAW, socket.htons(0x0800))
rx.bind(("veth1", 0))

def parse(f):
    if len(f) < 42 or f[12:14] != b"\x08\x00" or f[23] != 17 or (f[14] & 15) != 5:
        return None
    sport, dport = struct.unpack("!HH", f[34:38])
    if sport != 67:
        return None
    p = f[42:]
    if len(p) < 240 or p[236:240] != bytes([99, 130, 83, 99]):
        return None
    opts, i = {}, 240
    while i < len(p) and p[i] != 255:
        if p[i] == 0:
            i += 1
            continue
        if i + 1 >= len(p):
            break
        opts[str(p[i])] = opts.get(str(p[i]), "") + p[i + 2:i + 2 + p[i + 1]].hex()
        i += 2 + p[i + 1]
    return {"dst_mac": f[0:6].hex(), "src_mac": f[6:12].hex(), "dst_ip": socket.inet_ntoa(f[30:34]), "src_ip": socket.inet_ntoa(f[26:30]),
            "dport": dport, "op": p[0], "htype": p[1], "hlen": p[2], "hops": p[3], "xid": struct.unpack("!I", p[4:8])[0],
            "flags": struct.unpack("!H", p[10:12])[0], "ciaddr": socket.inet_ntoa(p[12:16]), "yiaddr": socket.inet_ntoa(p[16:20]),
            "giaddr": socket.inet_ntoa(p[24:28]), "chaddr": p[28:44].hex(), "options": opts}

for line in sys.stdin:
    cmd = json.loads(line)
    res = None
    if cmd["op"] == "send":
        try:
            tx.sendto(bytes.fromhex(cmd["hex"]), (cmd["dst"], 67))
            res = {"sent": True}
        except OSError as e:
            res = {"sent": False, "error": str(e)}
    elif cmd["op"] == "collect":          # the first server frame carrying this xid, within `wait` seconds
        deadline = time.time() + cmd["wait"]
        while True:
            r, _, _ = select.select([rx], [], [], max(0, deadline - time.time()))
            if not r:
                break
            m = parse(rx.recv(65535))
            if m and m["xid"] == cmd["xid"]:
                res = m
                break
    elif cmd["op"] == "quit":
        break
    sys.stdout.write(json.dumps(res) + "\n")
    sys.stdout.flush()
"""


def http_body(src, dst, port, path):
    s = socket.socket(socket.AF_INET, socket.SOCK_STREAM)
    s.settimeout(10)
    try:
        s.bind((src, 0))
        s.connect((dst, port))
        s.sendall(("GET %s HTTP/1.1\r\nHost: x\r\nConnection: close\r\n\r\n" % path).encode())
        data = b""
        while True:
            d = s.recv(65536)
            if not d:
                break
            data += d
    finally:
        s.close()
    head, _, body = data.partition(b"\r\n\r\n")
    status = int(head.split(b"\r\n", 1)[0].split()[1])
    if b"chunked" in head.lower():
        out, rest = b"", body
        while rest:
            ln, _, rest = rest.partition(b"\r\n")
            n = int(ln.split(b";")[0] or b"0", 16)
            if n == 0:
                break
            out += rest[:n]
            rest = rest[n + 2:]
        body = out
    return status, body


def lease_listing():
    """the rows of /api/v1/leases.json as sorted [ip, client_id, start, expire] lists (None when it cannot be read)"""
    for _ in range(3):                     # reading the listing has no effect on the server: retrying hides nothing
        try:
            st, body = http_body("127.0.0.1", "127.0.0.1", 9968, "/api/v1/leases.json")
            if st == 200:
                j = json.loads(body.decode())
                return sorted([l["ip"], l["client_id"], l["start"], l["expire"]] for l in j["leases"])
        except (OSError, ValueError, KeyError, IndexError):
            pass
        time.sleep(0.3)
    return None


def scenario_dhcpflow(holder, rnd, logpath):
    cl = subprocess.Popen(["nsenter", "-t", str(holder.pid), "-n", sys.executable, "-u", "-c", FLOW_CLIENT],
                          stdin=subprocess.PIPE, stdout=subprocess.PIPE, stderr=subprocess.PIPE, text=True)

    def call(**cmd):
        cl.stdin.write(json.dumps(cmd) + "\n")
        cl.stdin.flush()
        line = cl.stdout.readline()
        if not line:
            raise RuntimeError("dhcp flow client died: " + cl.stderr.read()[-400:])
        return json.loads(line)

    def silent_marks():
        try:
            return open(logpath).read().count("Failed to handle")
        except OSError:
            return 0

    steps = []
    server = "192.0.2.1"
    xid = [rnd.randrange(0x10000, 0x7fff0000)]

    def step(name, msgtype, sid_class, mac, flags, opts=b"", ciaddr="0.0.0.0", dst="255.255.255.255", expect=True, client_id=None):
        """send one message; a reply is awaited for up to 10 s when one is expected.  When none is expected the
        window ends when the server has logged that it dropped the message (plus a grace period) -- never a retry."""
        xid[0] += 1
        x = xid[0]
        if client_id is not None:
            opts = opt(61, client_id) + opts
        pkt = dhcp_msg(x, mac, flags, msgtype, opts, ciaddr=ciaddr)
        before = lease_listing()
        marks = silent_marks()
        sent = call(op="send", hex=pkt.hex(), dst=dst)
        reply, processed = None, False
        t_end = time.time() + 10.0
        while time.time() < t_end:
            reply = call(op="collect", xid=x, wait=0.25)
            if reply:
                processed = True
                break
            if silent_marks() > marks:
                processed = True
                reply = call(op="collect", xid=x, wait=0.7)      # grace: a reply that follows the log line
                break
        after = lease_listing()
        st = {"name": name, "msgtype": msgtype, "sid_class": sid_class, "expect": expect, "sent_ok": sent.get("sent"),
              "xid": x, "mac": mac.hex(), "chaddr": (mac + b"\0" * 16)[:16].hex(), "flags": flags, "ciaddr": ciaddr, "dst": dst,
              "client_id": (client_id if client_id is not None else mac[:6]).hex(), "reply": reply, "processed": processed,
              "before": before, "after": after}
        steps.append(st)
        return reply

    try:
        mac_a = bytes([2, 0, 0, 0, 2, rnd.randrange(1, 250)])
        mac_b = bytes([2, 0, 0, 0, 3, rnd.randrange(1, 250)])
        fl = rnd.choice([0, 0x8000])
        offer = step("discover", 1, 0, mac_a, fl)
        if offer and "54" in offer["options"]:
            y = offer["yiaddr"]
            sid = bytes.fromhex(offer["options"]["54"])
            ack = step("request-selecting", 3, 1, mac_a, fl, opt(54, sid) + opt(50, socket.inet_aton(y)))
            if ack:
                # the client now uses the address, like a real one, so that it can unicast
                ip_batch(["addr add %s/24 dev veth1" % ack["yiaddr"]], holder.pid, check=False)
                step("request-renewing", 3, 0, mac_a, 0, ciaddr=ack["yiaddr"], dst=server)
                # a renewing client that asks for broadcast replies (legal: it may not be able to take unicast yet)
                step("request-renewing-broadcast", 3, 0, mac_a, 0x8000, ciaddr=ack["yiaddr"], dst=server)
            step("request-foreign-server", 3, 2, mac_a, fl, opt(54, socket.inet_aton("192.0.2.99")) + opt(50, socket.inet_aton(y)), expect=False)
            if ack:
                step("inform", 8, 0, mac_a, 0, ciaddr=ack["yiaddr"], dst=server, expect=False)
            cid = bytes([0]) + bytes(rnd.randrange(256) for _ in range(7))        # 8 octets, while hlen is 6
            step("discover-long-client-id", 1, 0, mac_b, 0x8000 - fl, client_id=cid)
            step("decline", 4, 1, mac_a, fl, opt(54, sid) + opt(50, socket.inet_aton(y)), expect=False)
            if ack:
                step("release", 7, 1, mac_a, 0, opt(54, sid), ciaddr=ack["yiaddr"], dst=server, expect=False)
    finally:
        try:
            call(op="quit")
        except Exception:
            pass
        cl.kill()
    return {"server": server, "steps": steps}


# ----------------------------------------------------------------------------- HTTP
def http_get(src, dst, port, path, v6=False):
    try:
        fam = socket.AF_INET6 if v6 else socket.AF_INET
        s = socket.socket(fam, socket.SOCK_STREAM)
        s.settimeout(2)
        if src:
            s.bind((src, 0))
        s.connect((dst, port))
        s.sendall(("GET %s HTTP/1.1\r\nHost: x\r\nConnection: close\r\n\r\n" % path).encode())
        data = b""
        while True:
            d = s.recv(65536)
            if not d:
                break
            data += d
        s.close()
        line = data.split(b"\r\n", 1)[0].decode("latin1")
        return int(line.split()[1])
    except Exception as e:
        return "error:%s" % type(e).__name__


def http_keepalive(src, dst, port, paths):
    """several GETs on ONE HTTP/1.1 connection; returns one status (or error string) per path"""
    out = []
    try:
        s = socket.socket(socket.AF_INET, socket.SOCK_STREAM)
        s.settimeout(3)
        s.bind((src, 0))
        s.connect((dst, port))
        buf = b""
        for path in paths:
            s.sendall(("GET %s HTTP/1.1\r\nHost: x\r\n\r\n" % path).encode())
            while b"\r\n\r\n" not in buf:
                d = s.recv(65536)
                if not d:
                    raise EOFError()
                buf += d
            head, buf = buf.split(b"\r\n\r\n", 1)
            lines = head.decode("latin1").split("\r\n")
            clen = 0
            for l in lines[1:]:
                if l.lower().startswith("content-length:"):
                    clen = int(l.split(":", 1)[1])
            while len(buf) < clen:
                d = s.recv(65536)
                if not d:
                    raise EOFError()
                buf += d
            buf = buf[clen:]
            out.append(int(lines[0].split()[1]))
        s.close()
    except Exception as e:
        out += ["error:%s" % type(e).__name__] * (len(paths) - len(out))
    return out


def scenario_http(rnd):
    out = []
    paths = ["/", "/metrics", "/api/v1/leases.json", "/nonexistent"]
    for src, v6, dst in (("127.0.0.1", False, "127.0.0.1"), ("127.0.0.2", False, "127.0.0.1"),
                         ("127.0.0.4", False, "127.0.0.1"), (None, True, "::1")):
        for path in paths:
            out.append({"src": src or "::1", "path": path, "status": http_get(src, dst, 9968, path, v6)})
    # clients whose rule grants some of the http permissions, one request per connection ...
    for src in ("127.0.0.5", "127.0.0.6"):
        for path in paths:
            out.append({"src": src, "path": path, "status": http_get(src, "127.0.0.1", 9968, path)})
    # ... and several requests on one keep-alive connection, permitted ones before refused ones and back
    for src, seq in (("127.0.0.5", ["/", "/api/v1/leases.json", "/metrics", "/"]),
                     ("127.0.0.6", ["/metrics", "/api/v1/leases.json", "/", "/nonexistent"]),
                     ("127.0.0.2", ["/", "/metrics"]),
                     ("127.0.0.1", ["/", "/metrics", "/api/v1/leases.json"])):
        for path, st in zip(seq, http_keepalive(src, "127.0.0.1", 9968, seq)):
            out.append({"src": src, "path": path, "status": st, "keepalive": True})
    return {"requests": out}


# ----------------------------------------------------------------------------- DNS
def dns_query(qid, name, rd=1, qtype=1):
    q = struct.pack("!HHHHHH", qid, 0x0100 if rd else 0, 1, 0, 0, 0)
    for lab in name.strip(".").split("."):
        if lab:
            q += bytes([len(lab)]) + lab.encode()
    return q + b"\0" + struct.pack("!HH", qtype, 1)


def opt_rr(options=b"", size=1232):
    return b"\0" + struct.pack("!HHIH", 41, size, 0, len(options)) + options


def edns_opt(code, data):
    return struct.pack("!HH", code, len(data)) + data


def hostile_dns_queries(rnd):
    base = dns_query(0x4242, "hostile.example.com")
    hdr = lambda qd=1, ar=0: struct.pack("!HHHHHH", 0x4242, 0x0100, qd, 0, 0, ar)
    q_with_ar = hdr(1, 1) + base[12:]
    return [
        ("truncated-header", base[:5]),
        ("no-question", hdr(1)),
        ("pointer-loop", hdr(1) + b"\xc0\x0c" + struct.pack("!HH", 1, 1)),
        ("cookie-len-4", q_with_ar + opt_rr(edns_opt(10, b"abcd"))),
        ("cookie-len-0", q_with_ar + opt_rr(edns_opt(10, b""))),
        ("cookie-len-9", q_with_ar + opt_rr(edns_opt(10, b"abcdefghi"))),
        ("option-beyond-rdata", q_with_ar + b"\0" + struct.pack("!HHIH", 41, 1232, 0, 4) + struct.pack("!HH", 10, 60)),
        ("ede-in-query-len-1", q_with_ar + opt_rr(edns_opt(15, b"x"))),
        ("nsid", q_with_ar + opt_rr(edns_opt(3, b""))),
        ("reserved-label", hdr(1) + b"\x41" + b"a" * 65 + b"\0" + struct.pack("!HH", 1, 1)),
        ("qdcount-65535", hdr(65535) + base[12:]),
        ("two-opts", hdr(1, 2) + base[12:] + opt_rr() + opt_rr()),
        ("rdlen-too-long", q_with_ar + b"\0" + struct.pack("!HHIH", 41, 1232, 0, 400)),
        ("label-past-end", hdr(1) + b"\x3fabc"),
    ]


def upstream(stop_fd):
    """scripted upstream on 127.0.0.53:53: answers every query with one A record 192.0.2.<low byte of id>"""
    s = socket.socket(socket.AF_INET, socket.SOCK_DGRAM)
    s.bind(("127.0.0.53", 53))
    seen = 0
    while True:
        r, _, _ = select.select([s, stop_fd], [], [], 120)
        if stop_fd in r or not r:
            break
        if s not in r:
            continue
        q, addr = s.recvfrom(65535)
        seen += 1
        # question ends after the first name + 4
        i = 12
        while q[i] != 0:
            i += 1 + q[i]
        question = q[12:i + 5]
        name = q[12:i]
        if name.startswith(b"\x09ede-short"):
            # hostile upstream: EDNS with an extended-DNS-error option of one octet
            resp = q[0:2] + struct.pack("!HHHHH", 0x8182, 1, 0, 0, 1) + question + opt_rr(edns_opt(15, b"x"))
        elif name.startswith(b"\x0aede-empty0"):
            resp = q[0:2] + struct.pack("!HHHHH", 0x8182, 1, 0, 0, 1) + question + opt_rr(edns_opt(15, b""))
        elif name.startswith(b"\x07garbage"):
            resp = q[0:2] + b"\x81\x80\xff"
        else:
            resp = q[0:2] + struct.pack("!HHHHH", 0x8180, 1, 1, 0, 0) + question
            resp += b"\xc0\x0c" + struct.pack("!HHIH", 1, 1, 60, 4) + bytes([192, 0, 2, q[1]])
        s.sendto(resp, addr)
    os.write(stop_fd, str(seen).encode()) if False else None
    return seen


def udp_ask(src, dst, port, pkt, v6=False, timeout=2.5):
    fam = socket.AF_INET6 if v6 else socket.AF_INET
    s = socket.socket(fam, socket.SOCK_DGRAM)
    s.settimeout(timeout)
    if src:
        s.bind((src, 0))
    s.sendto(pkt, (dst, port))
    try:
        data, addr = s.recvfrom(65535)
        return {"from": addr[0], "rcode": data[3] & 0xf, "id": struct.unpack("!H", data[:2])[0], "ancount": struct.unpack("!H", data[6:8])[0],
                "tc": (data[2] >> 1) & 1, "len": len(data)}
    except socket.timeout:
        return None
    finally:
        s.close()


def scenario_dns(rnd, hostile_too=False):
    rfd, wfd = os.pipe()
    pid = os.fork()
    if pid == 0:
        os.close(wfd)
        try:
            upstream(rfd)
        finally:
            os._exit(0)
    os.close(rfd)
    time.sleep(0.2)
    out = []
    qid = rnd.randrange(1, 60000)
    cases = [
        ("127.0.0.1", "127.0.0.1", False, "www.example.com", "forward-v4only"),
        ("127.0.0.1", "127.0.0.3", False, "a.example.org", "forward-second-address"),
        (None, "::1", True, "b.example.net", "forward-v6"),
        ("127.0.0.1", "127.0.0.1", False, "x.invalid", "forge-nxdomain"),
        ("127.0.0.2", "127.0.0.1", False, "c.example.com", "acl-dns-only-client"),
        ("127.0.0.4", "127.0.0.1", False, "d.example.com", "acl-no-permission-client"),
        # the same client without the recursion-desired bit: the ACL applies whatever the flags are
        ("127.0.0.4", "127.0.0.1", False, "e.invalid", "acl-no-permission-client-rd0-forged-name"),
        ("127.0.0.4", "127.0.0.1", False, "f.example.com", "acl-no-permission-client-rd0"),
    ]
    for src, dst, v6, name, what in cases:
        qid += 1
        r = udp_ask(src, dst, 5353, dns_query(qid, name, rd=0 if "rd0" in what else 1), v6)
        out.append({"what": what, "dst": dst, "qid": qid, "reply": r})
    # hostile datagrams at the listener that answers on this tree ([::1]); after each one a valid query
    # for a fresh name must still be answered
    hostile = []
    hq = hostile_dns_queries(rnd) if hostile_too else []
    rnd.shuffle(hq)
    for k, (what, pkt) in enumerate(hq):
        udp_ask(None, "::1", 5353, pkt, True, timeout=0.25)
        qid += 1
        r = udp_ask(None, "::1", 5353, dns_query(qid, "after-%d.example.com" % k), True, timeout=3.0)
        hostile.append({"after": what, "answered": r is not None and r["id"] == qid and r["rcode"] == 0})
    for k, name in enumerate(["ede-short.example.com", "ede-empty0.example.com", "garbage.example.com"] if hostile_too else []):
        qid += 1
        udp_ask(None, "::1", 5353, dns_query(qid, name), True, timeout=0.6)
        qid += 1
        r = udp_ask(None, "::1", 5353, dns_query(qid, "after-up-%d.example.com" % k), True, timeout=3.0)
        hostile.append({"after": "upstream:" + name, "answered": r is not None and r["id"] == qid and r["rcode"] == 0})
    try:
        os.write(wfd, b"x")
    except OSError:
        pass
    os.waitpid(pid, 0)
    return {"queries": out, "hostile": hostile}


T0 = time.time()


def mark(what):
    if os.environ.get("RIG_TIMING"):
        sys.stderr.write("[rig %6.2f] %s\n" % (time.time() - T0, what))


def inner(argv):
    binary = argv[0]
    scenarios = argv[1].split(",")
    seed = 1
    if "--seed" in argv:
        seed = int(argv[argv.index("--seed") + 1])
    rnd = random.Random(seed)
    res = {}
    holder = None
    p = None
    logpath = tempfile.mktemp(prefix="erbium-rig-", suffix=".log", dir="/var/tmp" if os.path.isdir("/var/tmp") else None)
    try:
        plan = ra_plan(random.Random(seed * 7919 + 17)) if "ra" in scenarios else None
        mark("start")
        holder = setup_net(plan)
        mark("network ready")
        config = CONFIG + ra_config_yaml(plan) if plan else CONFIG
        p = start_erbium(binary, logpath, config)
        mark("erbium started")
        if p.poll() is not None:
            res["startup_error"] = open(logpath).read()[-1500:]
        else:
            for sc in scenarios:
                if sc == "dhcp":
                    res["dhcp"] = scenario_dhcp(holder, rnd)
                elif sc == "http":
                    res["http"] = scenario_http(rnd)
                elif sc == "dns":
                    res["dns"] = scenario_dns(rnd)
                elif sc == "ra":
                    res["ra"] = scenario_ra(holder, plan, rnd)
                elif sc == "dhcpflow":
                    res["dhcpflow"] = scenario_dhcpflow(holder, rnd, logpath)
                    lost = [st["name"] for st in res["dhcpflow"]["steps"] if not st["expect"] and not st["processed"]]
                    if lost:
                        # neither answered nor logged as dropped within 10 s: "no reply" would not be an observation
                        res["rig_error"] = "dhcpflow: the server gave no sign of having seen: %s" % ", ".join(lost)
                elif sc == "dnshostile":
                    res["dns"] = scenario_dns(rnd, hostile_too=True)
                mark("scenario %s done" % sc)
            res["alive_at_end"] = p.poll() is None
            log = open(logpath).read()
            res["panics_in_log"] = log.count("panicked at")
            res["log_tail"] = log[-600:]
    except Exception as e:
        res["rig_error"] = "%s: %s" % (type(e).__name__, e)
    finally:
        if p and p.poll() is None:
            p.kill()
        if holder:
            holder.kill()
        try:
            os.unlink(logpath)
        except OSError:
            pass
    print(json.dumps(res))


if __name__ == "__main__":
    if len(sys.argv) > 1 and sys.argv[1] == "--inner":
        inner(sys.argv[2:])
    else:
        outer(sys.argv[1:])

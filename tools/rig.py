#!/usr/bin/env python3
"""End-to-end rig: runs the REAL erbium binary in a private network + mount namespace and
observes client-visible behaviour of the glue that function-level hooks cannot reach
(DESIGN.md section 4.3).  Differential testing of glue -- no theorem depends on it.

usage: rig.py <erbium-binary> <scenario>[,<scenario>...] [--seed N]
prints one JSON object: {"scenario": {...observations...}, ...}

Scenarios:
  dhcp   DISCOVERs with the broadcast flag set / clear / other bits, hostile datagrams in between;
         observes destination IP + MAC of each OFFER on the wire, and that valid requests keep being answered
  http   GET /, /metrics, /api/v1/leases.json, /nonexistent from clients whose first matching ACL rule
         grants / does not grant http access; observes status codes
  dns    queries to an IPv4-only, an IPv6 and a second-address listener; observes the source address of
         each reply, REFUSED for clients without dns-recursion, forge-nxdomain, forwarding to a scripted upstream
"""
import sys, os, json, subprocess, time, socket, struct, random, select, signal, tempfile


def sh(cmd, check=True):
    return subprocess.run(cmd, shell=True, check=check, stdout=subprocess.PIPE, stderr=subprocess.STDOUT, text=True).stdout


# ----------------------------------------------------------------------------- outer: enter namespaces
def outer(argv):
    os.execvp("unshare", ["unshare", "--net", "--mount", "--fork", "--kill-child", sys.executable, os.path.abspath(__file__), "--inner"] + argv)


CONFIG = """
addresses: [192.0.2.1/24]
dhcp-policies:
  - match-subnet: 192.0.2.0/24
    apply-range: {start: 192.0.2.10, end: 192.0.2.40}
api-listeners: ["127.0.0.1:9968", "[::1]:9968"]
dns-listeners: ["127.0.0.1:5353", "[::1]:5353", "127.0.0.3:5353"]
dns-routes:
  - domain-suffixes: [""]
    type: forward
    dns-servers: [127.0.0.53]
  - domain-suffixes: ["invalid"]
    type: forge-nxdomain
acls:
  - match-subnets: [127.0.0.2/32]
    apply-access: ["dns-recursion"]
  - match-subnets: [127.0.0.4/32]
    apply-access: []
  - match-subnets: [127.0.0.0/8, "::1/128"]
    apply-access: ["dns-recursion", "http-ro"]
"""


def setup_net():
    sh("mount -t tmpfs tmpfs /var/lib && mkdir -p /var/lib/erbium")
    sh("ip link set lo up")
    for a in ("127.0.0.2", "127.0.0.3", "127.0.0.4", "127.0.0.53"):
        sh("ip addr add %s/8 dev lo" % a)
    # second namespace for the DHCP client end of the veth pair
    holder = subprocess.Popen(["unshare", "--net", "sleep", "600"])
    # wait until the holder really lives in its own network namespace (the machine may be busy)
    mine = os.readlink("/proc/self/ns/net")
    for _ in range(300):
        try:
            if os.readlink("/proc/%d/ns/net" % holder.pid) != mine:
                break
        except OSError:
            pass
        time.sleep(0.05)
    sh("ip link add veth0 type veth peer name veth1")
    sh("ip link set veth1 netns %d" % holder.pid)
    sh("ip addr add 192.0.2.1/24 dev veth0 && ip link set veth0 up")
    for _ in range(50):
        if subprocess.run("nsenter -t %d -n ip link set veth1 up" % holder.pid, shell=True, stdout=subprocess.DEVNULL, stderr=subprocess.DEVNULL).returncode == 0:
            break
        time.sleep(0.1)
    sh("nsenter -t %d -n ip link set lo up" % holder.pid, check=False)
    return holder


def start_erbium(binary, logpath):
    cfg = "/var/lib/erbium/erbium.conf"
    open(cfg, "w").write(CONFIG)
    env = dict(os.environ, RUST_LOG="info", RUST_BACKTRACE="0")
    log = open(logpath, "w")
    p = subprocess.Popen([binary, cfg], stdout=log, stderr=subprocess.STDOUT, env=env)
    # wait for the API listener
    for _ in range(100):
        try:
            s = socket.create_connection(("127.0.0.1", 9968), timeout=0.2)
            s.close()
            break
        except OSError:
            if p.poll() is not None:
                break
            time.sleep(0.1)
    time.sleep(0.3)
    return p


# ----------------------------------------------------------------------------- DHCP client (runs in the 2nd netns)
def dhcp_packet(xid, mac, flags, msgtype=1, extra=b"", hlen=6):
    chaddr = (mac + b"\0" * 16)[:16]
    p = struct.pack("!BBBBIHH", 1, 1, hlen, 0, xid, 0, flags) + b"\0" * 16 + chaddr + b"\0" * 192 + bytes([99, 130, 83, 99])
    p += bytes([53, 1, msgtype]) + extra + b"\xff"
    return p


DHCP_CLIENT = r'''
import sys, socket, struct, json, select, time
script = json.loads(sys.stdin.read())
tx = socket.socket(socket.AF_INET, socket.SOCK_DGRAM)
tx.setsockopt(socket.SOL_SOCKET, socket.SO_BROADCAST, 1)
tx.setsockopt(socket.SOL_SOCKET, socket.SO_REUSEADDR, 1)
tx.setsockopt(socket.SOL_SOCKET, 25, b"veth1\0")     # SO_BINDTODEVICE
tx.bind(("0.0.0.0", 68))
rx = socket.socket(socket.AF_PACKET, socket.SOCK_RAW, socket.htons(0x0800))
rx.bind(("veth1", 0))
out = []
for step in script:
    pkt = bytes.fromhex(step["hex"])
    # drain
    while select.select([rx], [], [], 0)[0]:
        rx.recv(65535)
    tx.sendto(pkt, ("255.255.255.255", 67))
    got = None
    deadline = time.time() + step.get("wait", 0.6)
    while time.time() < deadline:
        r, _, _ = select.select([rx], [], [], max(0, deadline - time.time()))
        if not r:
            break
        f = rx.recv(65535)
        if len(f) < 42 or f[12:14] != b"\x08\x00" or f[23] != 17:
            continue
        sport, dport = struct.unpack("!HH", f[34:38])
        if sport != 67:
            continue
        payload = f[42:]
        if len(payload) < 240:
            continue
        xid = struct.unpack("!I", payload[4:8])[0]
        if xid != step["xid"]:
            continue
        got = {"dst_mac": f[0:6].hex(), "dst_ip": socket.inet_ntoa(f[30:34]), "src_ip": socket.inet_ntoa(f[26:30]),
               "dport": dport, "yiaddr": socket.inet_ntoa(payload[16:20]), "flags": struct.unpack("!H", payload[10:12])[0],
               "chaddr": payload[28:34].hex(), "len": len(f)}
        break
    out.append(got)
print(json.dumps(out))
'''


def scenario_dhcp(holder, rnd):
    steps = []
    meta = []
    xid = 0x1000
    hostile = [
        b"",                                   # empty datagram
        b"\x01" * 10,                          # truncated header
        dhcp_packet(1, b"\x02\0\0\0\0\x99", 0)[:-1],   # no end marker
        dhcp_packet(2, b"\x02\0\0\0\0\x98", 0, extra=bytes([121, 5, 200, 1, 2, 3, 4])),  # option 121 with prefix length 200
        dhcp_packet(3, b"\x02\0\0\0", 0, hlen=4),      # hlen 4
        dhcp_packet(4, b"\x02\0\0\0\0\x97", 0, extra=bytes([51, 9]) + b"\xff" * 9),      # over-long integer option
        dhcp_packet(5, b"\x02\0\0\0\0\x96", 0, extra=bytes([119, 3, 63, 1, 2])),          # bad domain-search label
        dhcp_packet(6, b"\x02\0\0\0\0\x95", 0)[:236] + b"\0\0\0\0",                        # wrong magic
    ]
    flags_list = [0x8000, 0x0000, 0x0080, 0x7fff, 0xffff, 0x0001]
    rnd.shuffle(flags_list)
    for i, fl in enumerate(flags_list):
        # hostile datagram first, then a valid DISCOVER that must be answered
        h = hostile[(i + rnd.randrange(len(hostile))) % len(hostile)]
        steps.append({"hex": h.hex(), "xid": 0xdead0000 + i, "wait": 0.15})
        meta.append({"kind": "hostile"})
        xid += 1
        mac = bytes([2, 0, 0, 0, 1, i])
        steps.append({"hex": dhcp_packet(xid, mac, fl).hex(), "xid": xid, "wait": 1.0})
        meta.append({"kind": "discover", "flags": fl, "mac": mac.hex()})
    p = subprocess.run(["nsenter", "-t", str(holder.pid), "-n", sys.executable, "-c", DHCP_CLIENT],
                       input=json.dumps(steps), stdout=subprocess.PIPE, stderr=subprocess.PIPE, text=True, timeout=60)
    if p.returncode != 0:
        return {"error": p.stderr[-800:]}
    res = json.loads(p.stdout)
    obs = []
    for m, r in zip(meta, res):
        if m["kind"] == "discover":
            obs.append({"flags": m["flags"], "mac": m["mac"], "reply": r})
    return {"offers": obs}


# ----------------------------------------------------------------------------- HTTP
def http_get(src, dst, port, path, v6=False):
    try:
        fam = socket.AF_INET6 if v6 else socket.AF_INET
        s = socket.socket(fam, socket.SOCK_STREAM)
        s.settimeout(2)
        if src:
            s.bind((src, 0))
        s.connect((dst, port))
        s.sendall(("GET %s HTTP/1.1\r\nHost: x\r\nConnection: close\r\n\r\n" % path).encode())
        data = b""
        while True:
            d = s.recv(65536)
            if not d:
                break
            data += d
        s.close()
        line = data.split(b"\r\n", 1)[0].decode("latin1")
        return int(line.split()[1])
    except Exception as e:
        return "error:%s" % type(e).__name__


def scenario_http(rnd):
    out = []
    paths = ["/", "/metrics", "/api/v1/leases.json", "/nonexistent"]
    for src, v6, dst in (("127.0.0.1", False, "127.0.0.1"), ("127.0.0.2", False, "127.0.0.1"),
                         ("127.0.0.4", False, "127.0.0.1"), (None, True, "::1")):
        for path in paths:
            out.append({"src": src or "::1", "path": path, "status": http_get(src, dst, 9968, path, v6)})
    return {"requests": out}


# ----------------------------------------------------------------------------- DNS
def dns_query(qid, name, rd=1, qtype=1):
    q = struct.pack("!HHHHHH", qid, 0x0100 if rd else 0, 1, 0, 0, 0)
    for lab in name.strip(".").split("."):
        if lab:
            q += bytes([len(lab)]) + lab.encode()
    return q + b"\0" + struct.pack("!HH", qtype, 1)


def opt_rr(options=b"", size=1232):
    return b"\0" + struct.pack("!HHIH", 41, size, 0, len(options)) + options


def edns_opt(code, data):
    return struct.pack("!HH", code, len(data)) + data


def hostile_dns_queries(rnd):
    base = dns_query(0x4242, "hostile.example.com")
    hdr = lambda qd=1, ar=0: struct.pack("!HHHHHH", 0x4242, 0x0100, qd, 0, 0, ar)
    q_with_ar = hdr(1, 1) + base[12:]
    return [
        ("truncated-header", base[:5]),
        ("no-question", hdr(1)),
        ("pointer-loop", hdr(1) + b"\xc0\x0c" + struct.pack("!HH", 1, 1)),
        ("cookie-len-4", q_with_ar + opt_rr(edns_opt(10, b"abcd"))),
        ("cookie-len-0", q_with_ar + opt_rr(edns_opt(10, b""))),
        ("cookie-len-9", q_with_ar + opt_rr(edns_opt(10, b"abcdefghi"))),
        ("option-beyond-rdata", q_with_ar + b"\0" + struct.pack("!HHIH", 41, 1232, 0, 4) + struct.pack("!HH", 10, 60)),
        ("ede-in-query-len-1", q_with_ar + opt_rr(edns_opt(15, b"x"))),
        ("nsid", q_with_ar + opt_rr(edns_opt(3, b""))),
        ("reserved-label", hdr(1) + b"\x41" + b"a" * 65 + b"\0" + struct.pack("!HH", 1, 1)),
        ("qdcount-65535", hdr(65535) + base[12:]),
        ("two-opts", hdr(1, 2) + base[12:] + opt_rr() + opt_rr()),
        ("rdlen-too-long", q_with_ar + b"\0" + struct.pack("!HHIH", 41, 1232, 0, 400)),
        ("label-past-end", hdr(1) + b"\x3fabc"),
    ]


def upstream(stop_fd):
    """scripted upstream on 127.0.0.53:53: answers every query with one A record 192.0.2.<low byte of id>"""
    s = socket.socket(socket.AF_INET, socket.SOCK_DGRAM)
    s.bind(("127.0.0.53", 53))
    seen = 0
    while True:
        r, _, _ = select.select([s, stop_fd], [], [], 120)
        if stop_fd in r or not r:
            break
        if s not in r:
            continue
        q, addr = s.recvfrom(65535)
        seen += 1
        # question ends after the first name + 4
        i = 12
        while q[i] != 0:
            i += 1 + q[i]
        question = q[12:i + 5]
        name = q[12:i]
        if name.startswith(b"\x09ede-short"):
            # hostile upstream: EDNS with an extended-DNS-error option of one octet
            resp = q[0:2] + struct.pack("!HHHHH", 0x8182, 1, 0, 0, 1) + question + opt_rr(edns_opt(15, b"x"))
        elif name.startswith(b"\x0aede-empty0"):
            resp = q[0:2] + struct.pack("!HHHHH", 0x8182, 1, 0, 0, 1) + question + opt_rr(edns_opt(15, b""))
        elif name.startswith(b"\x07garbage"):
            resp = q[0:2] + b"\x81\x80\xff"
        else:
            resp = q[0:2] + struct.pack("!HHHHH", 0x8180, 1, 1, 0, 0) + question
            resp += b"\xc0\x0c" + struct.pack("!HHIH", 1, 1, 60, 4) + bytes([192, 0, 2, q[1]])
        s.sendto(resp, addr)
    os.write(stop_fd, str(seen).encode()) if False else None
    return seen


def udp_ask(src, dst, port, pkt, v6=False, timeout=2.5):
    fam = socket.AF_INET6 if v6 else socket.AF_INET
    s = socket.socket(fam, socket.SOCK_DGRAM)
    s.settimeout(timeout)
    if src:
        s.bind((src, 0))
    s.sendto(pkt, (dst, port))
    try:
        data, addr = s.recvfrom(65535)
        return {"from": addr[0], "rcode": data[3] & 0xf, "id": struct.unpack("!H", data[:2])[0], "ancount": struct.unpack("!H", data[6:8])[0],
                "tc": (data[2] >> 1) & 1, "len": len(data)}
    except socket.timeout:
        return None
    finally:
        s.close()


def scenario_dns(rnd, hostile_too=False):
    rfd, wfd = os.pipe()
    pid = os.fork()
    if pid == 0:
        os.close(wfd)
        try:
            upstream(rfd)
        finally:
            os._exit(0)
    os.close(rfd)
    time.sleep(0.2)
    out = []
    qid = rnd.randrange(1, 60000)
    cases = [
        ("127.0.0.1", "127.0.0.1", False, "www.example.com", "forward-v4only"),
        ("127.0.0.1", "127.0.0.3", False, "a.example.org", "forward-second-address"),
        (None, "::1", True, "b.example.net", "forward-v6"),
        ("127.0.0.1", "127.0.0.1", False, "x.invalid", "forge-nxdomain"),
        ("127.0.0.2", "127.0.0.1", False, "c.example.com", "acl-dns-only-client"),
        ("127.0.0.4", "127.0.0.1", False, "d.example.com", "acl-no-permission-client"),
    ]
    for src, dst, v6, name, what in cases:
        qid += 1
        r = udp_ask(src, dst, 5353, dns_query(qid, name), v6)
        out.append({"what": what, "dst": dst, "qid": qid, "reply": r})
    # hostile datagrams at the listener that answers on this tree ([::1]); after each one a valid query
    # for a fresh name must still be answered
    hostile = []
    hq = hostile_dns_queries(rnd) if hostile_too else []
    rnd.shuffle(hq)
    for k, (what, pkt) in enumerate(hq):
        udp_ask(None, "::1", 5353, pkt, True, timeout=0.25)
        qid += 1
        r = udp_ask(None, "::1", 5353, dns_query(qid, "after-%d.example.com" % k), True, timeout=3.0)
        hostile.append({"after": what, "answered": r is not None and r["id"] == qid and r["rcode"] == 0})
    for k, name in enumerate(["ede-short.example.com", "ede-empty0.example.com", "garbage.example.com"] if hostile_too else []):
        qid += 1
        udp_ask(None, "::1", 5353, dns_query(qid, name), True, timeout=0.6)
        qid += 1
        r = udp_ask(None, "::1", 5353, dns_query(qid, "after-up-%d.example.com" % k), True, timeout=3.0)
        hostile.append({"after": "upstream:" + name, "answered": r is not None and r["id"] == qid and r["rcode"] == 0})
    try:
        os.write(wfd, b"x")
    except OSError:
        pass
    os.waitpid(pid, 0)
    return {"queries": out, "hostile": hostile}


def inner(argv):
    binary = argv[0]
    scenarios = argv[1].split(",")
    seed = 1
    if "--seed" in argv:
        seed = int(argv[argv.index("--seed") + 1])
    rnd = random.Random(seed)
    res = {}
    holder = None
    p = None
    logpath = tempfile.mktemp(prefix="erbium-rig-", suffix=".log", dir="/var/tmp" if os.path.isdir("/var/tmp") else None)
    try:
        holder = setup_net()
        p = start_erbium(binary, logpath)
        if p.poll() is not None:
            res["startup_error"] = open(logpath).read()[-1500:]
        else:
            for sc in scenarios:
                if sc == "dhcp":
                    res["dhcp"] = scenario_dhcp(holder, rnd)
                elif sc == "http":
                    res["http"] = scenario_http(rnd)
                elif sc == "dns":
                    res["dns"] = scenario_dns(rnd)
                elif sc == "dnshostile":
                    res["dns"] = scenario_dns(rnd, hostile_too=True)
            res["alive_at_end"] = p.poll() is None
            log = open(logpath).read()
            res["panics_in_log"] = log.count("panicked at")
            res["log_tail"] = log[-600:]
    except Exception as e:
        res["rig_error"] = "%s: %s" % (type(e).__name__, e)
    finally:
        if p and p.poll() is None:
            p.kill()
        if holder:
            holder.kill()
        try:
            os.unlink(logpath)
        except OSError:
            pass
    print(json.dumps(res))


if __name__ == "__main__":
    if len(sys.argv) > 1 and sys.argv[1] == "--inner":
        inner(sys.argv[2:])
    else:
        outer(sys.argv[1:])

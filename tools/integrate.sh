#!/bin/bash
# Integrate a builder: cherry-pick its erbium commits (hooks + fixes) onto /repo main, merge its verif branch.
# usage: tools/integrate.sh <name>
set -u
name="$1"
base=/root/build/$name
cd /repo || exit 1
if [ -n "$(git status --porcelain --untracked-files=no)" ]; then echo "/repo not clean"; exit 1; fi
commits=$(git rev-list --reverse --no-merges main..build-$name)
for c in $commits; do
  subj=$(git log -1 --format=%s $c)
  # skip commits whose patch is already in main (same patch-id)
  pid=$(git show $c | git patch-id --stable | cut -d' ' -f1)
  if git log --format=%s main | head -200 | grep -qxF "$subj" || git log --format=%H main | head -100 | while read h; do git show $h | git patch-id --stable | cut -d' ' -f1; done | grep -q "^$pid$"; then
    echo "SKIP (already in main): $subj"; continue
  fi
  if git cherry-pick -x $c >/dev/null 2>&1; then
    echo "PICKED: $subj"
  else
    if [ -z "$(git status --porcelain --untracked-files=no)" ]; then
      git cherry-pick --skip >/dev/null 2>&1; echo "EMPTY (skipped): $subj"
    else
      echo "CONFLICT: $subj ($c) -- resolve, then 'git cherry-pick --continue' and re-run"; git status --short | head; exit 2
    fi
  fi
done
echo "--- erbium commits done; merging verif branch"
cd /verif || exit 1
git pull --no-rebase --no-edit "$base/verif" "$name" 2>&1 | tail -3
# evidence files are rewritten by every run: keep ours
for f in $(git diff --name-only --diff-filter=U | grep "^evidence/"); do git checkout --ours -- "$f" && git add "$f"; done
# generated files some branches still track
git rm -q coq/_CoqProject 2>/dev/null; git rm -q --cached coq/_CoqProject coq/.nia.cache 2>/dev/null; /verif/tools/mkcoq.sh
if git status --short | grep -q "^\(DU\|UD\|AA\|UU\)"; then echo "MERGE CONFLICTS:"; git status --short | grep "^\(DU\|UD\|AA\|UU\)"; else git commit -qm "merge builder $name" 2>/dev/null && echo "merged $name"; fi

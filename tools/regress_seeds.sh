#!/bin/bash
# Regression over kept seeded changes: every seeded/<ID>-<k> of the given property ids is applied in the scratch
# worktree /tmp/seed-<ID> (moved to /repo's HEAD), the property's quick check is run, one line per change.
# usage: regress_seeds.sh <ID>...        (env SEED_WORK: work directory)
W=${SEED_WORK:-/verif/.work-seed}
export VERIF_WORK=$W VERIF_EVIDENCE=$W/evidence VERIF_REPLAYS=$W/replays
for id in "$@"; do
  wt=/tmp/seed-$id
  [ -d $wt ] || git -C /repo worktree add -q --detach $wt HEAD
  for sd in /verif/seeded/$id-*; do
    name=$(basename $sd)
    ( cd $wt && git checkout -q -- . && git clean -fdq -e target && git checkout -q --detach $(git -C /repo rev-parse HEAD) && git apply $sd/patch.diff ) || { echo "REGRESS $name patch-does-not-apply"; continue; }
    out=$(cd /verif && VERIF_REPO=$wt ./check $id 2>&1 | grep -E "^(VIOLATION|$id tier)" | tr '\n' ' ')
    ( cd $wt && git checkout -q -- . && git clean -fdq -e target )
    if echo "$out" | grep -q "VIOLATION"; then det=yes; else det=NO; fi
    echo "REGRESS $name detected=$det :: $out"
  done
done

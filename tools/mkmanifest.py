#!/usr/bin/env python3
"""Regenerate MANIFEST.json's checks/not_applicable lists from props/*.json (single source of truth)."""
import json, os, subprocess
here = os.path.dirname(os.path.abspath(__file__)); V = os.path.join(here, "..")
m = json.load(open(os.path.join(V, "MANIFEST.json")))
allp = [json.loads(l)["id"] for l in open(os.path.join(V, "properties.jsonl"))]
checks, na = [], []
old_na = {x["property_id"]: x["reason"] for x in m.get("not_applicable", [])}
for pid in allp:
    p = os.path.join(V, "props", pid + ".json")
    if os.path.exists(p) and json.load(open(p)).get("claimed", True):
        pr = json.load(open(p))
        checks.append({
            "property_id": pid,
            "quick_cmd": "./check %s --tier quick" % pid,
            "thorough_cmd": "./check %s --tier thorough" % pid,
            "evidence_file": "/verif/evidence/%s.json" % pid,
            "replay_cmd_template": "./check %s --replay {path}" % pid,
            "engine": "coq-model+correspondence",
            "level_claimed": {"category": pr.get("level", "proof"), "text": pr.get("level_text", ""), "design_ref": pr.get("design_ref", "DESIGN.md section 8, " + pid)},
            "level_note": pr.get("level_note", ""),
            "technique": pr.get("technique", "machine-checked proof in Coq 8.16 about a hand-written Gallina model + correspondence check (extracted model vs real code on generated cases)"),
        })
    else:
        reason = old_na.get(pid, "not built yet: no check exists for this property in this revision (planned, see DESIGN.md section 8)")
        if os.path.exists(p):
            reason = json.load(open(p)).get("not_applicable_reason", reason)
        na.append({"property_id": pid, "reason": reason})
m["checks"] = checks
m["not_applicable"] = na
m["engines"][0]["serves_properties"] = [c["property_id"] for c in checks]
hooks = subprocess.run(["git", "-C", "/repo", "log", "--format=%h %s"], capture_output=True, text=True).stdout.splitlines()
m["hooks"]["source_commits"] = [l.split()[0] for l in hooks if "verif hook" in l]
json.dump(m, open(os.path.join(V, "MANIFEST.json"), "w"), indent=1)
print("checks:", [c["property_id"] for c in checks]); print("not_applicable:", [x["property_id"] for x in na])

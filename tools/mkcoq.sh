#!/bin/sh
# Regenerate coq/_CoqProject from the files present and (re)create the Makefile.
set -e
cd "$(dirname "$0")/../coq"
{
  echo "-Q . Erbium"
  echo "-arg -w -arg -notation-overridden,-deprecated-hint-without-locality,-deprecated-instance-without-locality,-unused-pattern-matching-variable"
  find Lib Model Proofs Props Extract -name '*.v' 2>/dev/null | LC_ALL=C sort
} > _CoqProject.new
if ! cmp -s _CoqProject.new _CoqProject 2>/dev/null || [ ! -f Makefile ]; then
  mv _CoqProject.new _CoqProject
  coq_makefile -f _CoqProject -o Makefile >/dev/null
else
  rm -f _CoqProject.new
fi

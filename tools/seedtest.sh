#!/bin/bash
# Apply a seeded change to /repo, run the property's quick check, undo the change.
# usage: tools/seedtest.sh <ID> <patch.diff> [check args...]
id="$1"; patch="$2"; shift 2
cd /repo || exit 1
if [ -n "$(git status --porcelain --untracked-files=no)" ]; then echo "/repo not clean"; exit 1; fi
git apply "$patch" || { echo "patch does not apply"; exit 1; }
cd /verif && ./check "$id" "$@" 2>&1 | tail -4
rc=${PIPESTATUS[0]}
git -C /repo checkout -- .
echo "seedtest exit=$rc"

#!/bin/bash
# For a property ID whose seeding agent delivered /tmp/seeded-<ID>-{1,2,3}: confirm each change in the scratch
# worktree /tmp/seed-<ID>, run the property's quick check against that worktree with the change applied
# (never touching /repo), and keep it under /verif/seeded/.   usage: seedround.sh <ID>
id="$1"; shift
ks="${@:-1 2 3}"
wt=/tmp/seed-$id
W=${SEED_WORK:-/verif/.work-seed}
export VERIF_WORK=$W VERIF_EVIDENCE=$W/evidence VERIF_REPLAYS=$W/replays
for k in $ks; do
  sd=/tmp/seeded-$id-$k
  [ -f $sd/patch.diff ] || { echo "SEED $id-$k missing"; continue; }
  conf=$(/verif/tools/confirm_seed.sh $sd $wt 2>&1 | grep RESULT | sed 's/^RESULT [^ ]* //')
  ( cd $wt && git checkout -q -- . && git clean -fdq -e target && git apply $sd/patch.diff ) || { echo "SEED $id-$k patch-does-not-apply"; continue; }
  out=$(cd /verif && VERIF_REPO=$wt ./check $id 2>&1 | grep -E "^(VIOLATION|$id tier)" | tr '\n' ' ')
  ( cd $wt && git checkout -q -- . && git clean -fdq -e target )
  if echo "$out" | grep -q "VIOLATION"; then det=yes; else det=no; fi
  echo "SEED $id-$k confirm[$conf] detected=$det :: $out"
  /verif/tools/keep_seed.py $sd "scratch worktree: $conf" $det "$out" >/dev/null
done

#!/usr/bin/env python3
"""Turn observations of tools/rig.py (JSON) into case lines (decimal tokens) for a property's model entry point."""
import socket, struct, ipaddress


def ip4(s):
    return struct.unpack("!I", socket.inet_aton(s))[0]


def mac(hexs):
    return " ".join(str(b) for b in bytes.fromhex(hexs))


# ---- C17: the abstract RA configuration of tools/rig.py in the token grammar of harness/src/bin/c17.rs
def a16(a):
    return list(ipaddress.IPv6Address(a).packed)


def dur(secs):
    return [secs >> 32, secs & 0xffffffff, 0]


def bstr(b):
    if isinstance(b, str):
        b = b.encode()
    return [len(b)] + list(b)


def tri(v, f):
    if v[0] == "absent":
        return [0]
    if v[0] == "null":
        return [1]
    return [2] + f(v[1])


def ra_top_tokens(top):
    t = [len(top["dns_servers"])]
    for a in top["dns_servers"]:
        ip = ipaddress.ip_address(a)
        t += [ip.version] + list(ip.packed)
    t += [len(top["dns_search"])]
    for d in top["dns_search"]:
        t += bstr(d)
    t += ([1] + bstr(top["captive"])) if top.get("captive") is not None else [0]
    return t


def ra_intf_tokens(c):
    t = [c["hop"], c["m"], c["o"]] + tri(c["lifetime"], dur) + dur(c["reachable"]) + dur(c["retrans"])
    t += [len(c["prefixes"])]
    for p in c["prefixes"]:
        t += a16(p["addr"]) + [p["len"], p["onlink"], p["auto"]] + dur(p["valid"]) + dur(p["preferred"])
    t += tri(c["rdnss_lt"], dur) + tri(c["rdnss"], lambda v: [len(v)] + [x for a in v for x in a16(a)])
    t += tri(c["dnssl_lt"], dur) + tri(c["dnssl"], lambda v: [len(v)] + [x for d in v for x in bstr(d)])
    t += tri(c["cp"], bstr)
    if c["pref64"]:
        t += [1] + dur(c["pref64"]["lifetime"]) + a16(c["pref64"]["prefix"]) + [c["pref64"]["len"]]
    else:
        t += [0]
    return t


def best_self6(addrs):
    """erbium.conf(5): $self6 is "the local interface address"; radv/mod.rs documents the preference
    unique-local > global > link-local (written here independently of ScopeSorter)"""
    def rank(a):
        ip = ipaddress.IPv6Address(a)
        if ip in ipaddress.IPv6Network("fc00::/7"):
            return 3
        if ip in ipaddress.IPv6Network("fe80::/64"):
            return 1
        if ip.is_multicast or ip.is_loopback or ip.is_unspecified:
            return 0
        return 2
    return max(addrs, key=lambda a: (rank(a), int(ipaddress.IPv6Address(a))))


def ra_env_tokens(plan, itf):
    c = itf["cfg"]
    t = [1] + list(bytes.fromhex(itf["mac"]))
    if c["mtu"][0] == "val":
        t += [1, c["mtu"][1]]
    elif c["mtu"][0] == "null":
        t += [0]
    else:
        t += [1, itf["mtu_seen"]]                     # the MTU of the interface
    t += a16(best_self6(itf["all_addrs"]))
    # erbium.conf(5) lifetime: 0 s without a default route or when it points back out of this interface,
    # else AdvDefaultLifetime (RFC 4861 6.2.1: 3 * MaxRtrAdvInterval = 1800 s)
    if c["lifetime"][0] == "absent" and plan.get("default_route_dev") and plan["default_route_dev"] != itf["name"]:
        t += dur(1800)
    else:
        t += dur(0)
    return t


def ra_cases(ra):
    out = []
    plan = ra["plan"]
    by_peer = {i["peer"]: i for i in plan["ifaces"]}
    top = ra_top_tokens(plan["top"])
    for sol in ra.get("solicitations", []):
        itf = by_peer[sol["dev"]]
        head = [3] + top + ra_intf_tokens(itf["cfg"]) + ra_env_tokens(plan, itf)
        ras = [r for r in sol["ras"] if "icmp" in r]
        if not ras:
            out.append(" ".join(map(str, head + [0])))
        for r in ras:
            icmp = bytes.fromhex(r["icmp"])
            w = [1] + list(bytes.fromhex(r["src"])) + list(bytes.fromhex(r["dst"])) + [r["hlim"]]
            w += a16(itf["ll"][0]) + a16(itf["peer_ll"][0]) + bstr(icmp)
            out.append(" ".join(map(str, head + w)))
    return out


# ---- dhcpflow: one observed step -> the facts the kinds 30 (C13), 40 (C10), 41 (C09) are about
def flow_row(listing, ip):
    for r in listing or []:
        if r[0] == ip:
            return r
    return None


def flow_facts(server, st):
    r = st["reply"]
    f = {"got": 0 if r is None else 1, "echo_ok": 0, "sid_ok": 0, "row_ok": 0}
    before, after = st["before"], st["after"]
    if before is None or after is None:
        f["changed"] = 1                         # the listing could not be read: never counted as "unchanged"
    elif r is None:
        f["changed"] = 0 if before == after else 1
    else:
        y = r["yiaddr"]
        f["changed"] = 0 if [x for x in before if x[0] != y] == [x for x in after if x[0] != y] else 1
    if r is not None:
        f["echo_ok"] = 1 if (r["op"] == 2 and r["xid"] == st["xid"] and r["htype"] == 1 and r["hlen"] == 6 and r["chaddr"] == st["chaddr"]
                             and r["giaddr"] == "0.0.0.0" and r["flags"] == st["flags"]) else 0
        sid = r["options"].get("54")
        f["sid_ok"] = 1 if (sid is not None and sid == socket.inet_aton(server).hex() and r["src_ip"] == server) else 0
        row = flow_row(after, r["yiaddr"])
        cid = ":".join("%02x" % b for b in bytes.fromhex(st["client_id"]))
        f["row_ok"] = 1 if (row is not None and row[1] == cid) else 0
        o51 = r["options"].get("51")
        f["opt51"] = None if o51 is None or len(o51) != 8 else int(o51, 16)
        f["listed"] = 0 if row is None else max(0, row[3] - row[2])
        f["is_ack"] = 1 if r["options"].get("53") == "05" else 0
    return f


def cases(pid, obs):
    out = []
    flow = obs.get("dhcpflow") or {}
    for st in flow.get("steps", []):
        f = flow_facts(flow["server"], st)
        if pid == "C13":
            out.append("30 %d %d %d %d %d %d %d" % (st["msgtype"], st["sid_class"], f["got"], f["echo_ok"], f["sid_ok"], f["changed"], f["row_ok"]))
        if pid == "C10" and f["got"]:
            out.append("40 %d %d %d %d 300 86400" % (f["is_ack"], 0 if f["opt51"] is None else 1, f["opt51"] or 0, f["listed"]))
    if pid == "C09":
        by = {st["name"]: st["reply"] for st in flow.get("steps", [])}
        for k, (a, b) in enumerate((("discover", "request-selecting"), ("request-selecting", "request-renewing"))):
            if by.get(a) and by.get(b):
                out.append("41 %d %d %d" % (k, ip4(by[a]["yiaddr"]), ip4(by[b]["yiaddr"])))
            elif by.get(a) and b in by:
                out.append("41 %d %d 0" % (k, ip4(by[a]["yiaddr"])))        # no ACK at all: not the offered address either
    if pid == "C17" and "ra" in obs and "plan" in obs["ra"]:
        out += ra_cases(obs["ra"])
    if pid == "C12":
        # every reply of the dhcpflow exchanges (incl. renewals with ciaddr set, with and without the broadcast flag)
        for st in flow.get("steps", []):
            r = st["reply"]
            if r is not None:
                out.append("6 %d 1 %d %d %s %s" % (st["flags"], ip4(r["yiaddr"]), ip4(r["dst_ip"]), mac(r["dst_mac"]), mac(st["mac"])))
    if pid == "C12" and "dhcp" in obs:
        # kind 7: the whole frame as captured on the wire: prl_requested frame-octets
        for o in obs["dhcp"].get("offers", []):
            r = o["reply"]
            if r is not None and "frame" in r:
                fb = bytes.fromhex(r["frame"])
                out.append("7 %d %d %s" % (o.get("prl", 0), len(fb), " ".join(str(b) for b in fb)))
    if pid == "C12" and "dhcp" in obs:
        # kind 6: flags got yiaddr dst_ip dst_mac*6 req_mac*6
        for o in obs["dhcp"].get("offers", []):
            r = o["reply"]
            if r is None:
                out.append("6 %d 0 0 0 0 0 0 0 0 0 %s" % (o["flags"], mac(o["mac"])))
            else:
                out.append("6 %d 1 %d %d %s %s" % (o["flags"], ip4(r["yiaddr"]), ip4(r["dst_ip"]), mac(r["dst_mac"]), mac(o["mac"])))
    if pid == "C05" and "dhcp" in obs:
        # kind 6: per valid DISCOVER sent after a hostile datagram: answered?; then panics seen, alive
        for o in obs["dhcp"].get("offers", []):
            out.append("6 %d" % (0 if o["reply"] is None else 1))
    if pid == "C05" and "dns" in obs:
        for h in obs["dns"].get("hostile", []):
            out.append("8 %d" % (1 if h["answered"] else 0))
    if pid == "C05":
        out.append("7 %d %d" % (obs.get("panics_in_log", 0), 1 if obs.get("alive_at_end") else 0))
    if pid == "C08" and "http" in obs:
        # kind 20: client class (1 = first matching rule grants http-ro, 0 = it does not), path code, status
        # what the FIRST matching rule of the rig's acls grants each client; what each path needs (http.rs)
        ro = {"http", "http-metrics", "http-leases"}
        grants = {"127.0.0.1": ro, "::1": ro, "127.0.0.2": set(), "127.0.0.4": set(),
                  "127.0.0.5": {"http"}, "127.0.0.6": {"http", "http-metrics"}}
        needs = {"/": "http", "/metrics": "http-metrics", "/api/v1/leases.json": "http-leases", "/nonexistent": "http-leases"}
        pcode = {"/": 0, "/metrics": 1, "/api/v1/leases.json": 2, "/nonexistent": 3}
        for r in obs["http"].get("requests", []):
            st = r["status"] if isinstance(r["status"], int) else 0
            out.append("20 %d %d %d" % (1 if needs[r["path"]] in grants[r["src"]] else 0, pcode[r["path"]], st))
    if pid == "C07" and "dns" in obs:
        # kind 30: which listener (1 v4-only, 2 second v4 address, 3 v6), got reply, reply source == query destination, id echoed
        code = {"forward-v4only": 1, "forward-second-address": 2, "forward-v6": 3}
        for q in obs["dns"].get("queries", []):
            if q["what"] in code:
                r = q["reply"]
                if r is None:
                    out.append("30 %d 0 0 0" % code[q["what"]])
                else:
                    out.append("30 %d 1 %d %d" % (code[q["what"]], 1 if r["from"] == q["dst"] else 0, 1 if r["id"] == q["qid"] else 0))
    if pid == "C08" and "dns" in obs:
        # kind 21: client class for dns (1 = granted recursion, 0 = not), got reply, rcode
        klass = {"forward-v4only": 1, "acl-dns-only-client": 1, "acl-no-permission-client": 0,
                 "acl-no-permission-client-rd0-forged-name": 0, "acl-no-permission-client-rd0": 0}
        for q in obs["dns"].get("queries", []):
            if q["what"] in klass:
                r = q["reply"]
                out.append("21 %d %d %d" % (klass[q["what"]], 0 if r is None else 1, 0 if r is None else r["rcode"]))
    if pid == "C15" and "dns" in obs:
        for q in obs["dns"].get("queries", []):
            if q["what"] == "forge-nxdomain":
                r = q["reply"]
                out.append("40 %d %d" % (0 if r is None else 1, 0 if r is None else r["rcode"]))
    return out

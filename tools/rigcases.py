#!/usr/bin/env python3
"""Turn observations of tools/rig.py (JSON) into case lines (decimal tokens) for a property's model entry point."""
import socket, struct


def ip4(s):
    return struct.unpack("!I", socket.inet_aton(s))[0]


def mac(hexs):
    return " ".join(str(b) for b in bytes.fromhex(hexs))


def cases(pid, obs):
    out = []
    if pid == "C12" and "dhcp" in obs:
        # kind 6: flags got yiaddr dst_ip dst_mac*6 req_mac*6
        for o in obs["dhcp"].get("offers", []):
            r = o["reply"]
            if r is None:
                out.append("6 %d 0 0 0 0 0 0 0 0 0 %s" % (o["flags"], mac(o["mac"])))
            else:
                out.append("6 %d 1 %d %d %s %s" % (o["flags"], ip4(r["yiaddr"]), ip4(r["dst_ip"]), mac(r["dst_mac"]), mac(o["mac"])))
    if pid == "C05" and "dhcp" in obs:
        # kind 6: per valid DISCOVER sent after a hostile datagram: answered?; then panics seen, alive
        for o in obs["dhcp"].get("offers", []):
            out.append("6 %d" % (0 if o["reply"] is None else 1))
    if pid == "C05" and "dns" in obs:
        for h in obs["dns"].get("hostile", []):
            out.append("8 %d" % (1 if h["answered"] else 0))
    if pid == "C05":
        out.append("7 %d %d" % (obs.get("panics_in_log", 0), 1 if obs.get("alive_at_end") else 0))
    if pid == "C08" and "http" in obs:
        # kind 20: client class (1 = first matching rule grants http-ro, 0 = it does not), path code, status
        klass = {"127.0.0.1": 1, "127.0.0.2": 0, "127.0.0.4": 0, "::1": 1}
        pcode = {"/": 0, "/metrics": 1, "/api/v1/leases.json": 2, "/nonexistent": 3}
        for r in obs["http"].get("requests", []):
            st = r["status"] if isinstance(r["status"], int) else 0
            out.append("20 %d %d %d" % (klass[r["src"]], pcode[r["path"]], st))
    if pid == "C07" and "dns" in obs:
        # kind 30: which listener (1 v4-only, 2 second v4 address, 3 v6), got reply, reply source == query destination, id echoed
        code = {"forward-v4only": 1, "forward-second-address": 2, "forward-v6": 3}
        for q in obs["dns"].get("queries", []):
            if q["what"] in code:
                r = q["reply"]
                if r is None:
                    out.append("30 %d 0 0 0" % code[q["what"]])
                else:
                    out.append("30 %d 1 %d %d" % (code[q["what"]], 1 if r["from"] == q["dst"] else 0, 1 if r["id"] == q["qid"] else 0))
    if pid == "C08" and "dns" in obs:
        # kind 21: client class for dns (1 = granted recursion, 0 = not), got reply, rcode
        klass = {"forward-v4only": 1, "acl-dns-only-client": 1, "acl-no-permission-client": 0}
        for q in obs["dns"].get("queries", []):
            if q["what"] in klass:
                r = q["reply"]
                out.append("21 %d %d %d" % (klass[q["what"]], 0 if r is None else 1, 0 if r is None else r["rcode"]))
    if pid == "C15" and "dns" in obs:
        for q in obs["dns"].get("queries", []):
            if q["what"] == "forge-nxdomain":
                r = q["reply"]
                out.append("40 %d %d" % (0 if r is None else 1, 0 if r is None else r["rcode"]))
    return out
